"""
C20 - Compiled and dataclass payloads behave like their plain definition.

Bounded exhaustive *program* enumeration.  A program is a payload definition (format sequence, field names,
default on the last field, fix_pack_/fix_unpack_ hooks, inheritance shape, message id); it is materialised at
run time in three forms

    interp     class P(VariablePayload)                      <- the reference (plain interpreted definition)
    compiled   vp_compile(class P(VariablePayload))
    dataclass  @dataclass class P(DataClassPayload)          (every annotation style type_map can express)

and every constructor call of a bounded instance alphabet (positional / keyword / mixed / relying on the
default) is executed on all forms through the real Serializer.  The oracle is purely differential and one
directional, exactly as the statement reads: whenever the interpreted form accepts the arguments, every
other form must accept them, hold the same attribute values, produce the same bytes and decode those bytes
to the same attribute values.  Part two does the same for every VariablePayload subclass shipped in ipv8
(the shipped, compiled class against an uncompiled twin built from its format_list/names).

Nothing is sampled: VERIF_SEED only rotates which alphabet value is the base instance.
"""
from __future__ import annotations

import dataclasses
import functools
import importlib
import json
import operator
import os
import sys
import types
from collections import Counter
from itertools import combinations, product
from typing import TypeVar

import ipv8
from ipv8.messaging.interfaces.udp.endpoint import UDPv4Address
from ipv8.messaging.lazy_payload import VariablePayload, VariablePayloadWID, vp_compile
from ipv8.messaging.payload_dataclass import DataClassPayload, type_from_format
from ipv8.messaging.serialization import ListOf, Payload, Serializable, Serializer

from .. import core, fixtures

LEVEL = "exploration"

MSG_ID = 7
SCRATCH = "c20_generated"           # DataClassPayload writes the converted class into sys.modules[cls.__module__]
if SCRATCH not in sys.modules:
    sys.modules[SCRATCH] = types.ModuleType(SCRATCH)


def _serializer() -> Serializer:
    """The default formats plus the two custom ones the shipped payloads use (dht 'node-list', tunnel 'flags')."""
    from ipv8.dht.payload import NodePacker
    from ipv8.messaging.anonymization.payload import Flags
    s = Serializer()
    s.add_packer("node-list", ListOf(NodePacker(s)))
    s.add_packer("flags", Flags())
    return s


SER = _serializer()
REGISTERED = [f for f in Serializer().get_available_formats() if f not in ("payload", "payload-list")]

# ------------------------------------------------------------------------------------------------
# value alphabets (descriptors; nested payload values are materialised per form by ``mat``)
# ------------------------------------------------------------------------------------------------


class K:
    """Descriptor of a nested payload instance: role is 'C1'/'C2' (generated child of the same form) or a class."""

    __slots__ = ("role", "args")

    def __init__(self, role, *args) -> None:  # noqa: ANN001, ANN002
        self.role, self.args = role, args

    def __repr__(self) -> str:
        name = self.role if isinstance(self.role, str) else self.role.__name__
        return f"{name}({', '.join(repr(a) for a in self.args)})"


def _bits(n: int) -> tuple:
    return tuple((n >> (7 - i)) & 1 for i in range(8))


BITS = [_bits(0b10100110), _bits(0), _bits(0xFF), _bits(0x80), _bits(0x01), tuple(bool(b) for b in _bits(0x5A))]
C1_VALUES = [K("C1", 1, b"x"), K("C1", 0, b""), K("C1", 65535, b"\x00\xff")]
C2_VALUES = [K("C2", "a", [K("C1", 1, b"x"), K("C1", 2, b"")]), K("C2", "", []), K("C2", "é", [K("C1", 3, b"yz")])]

# fmt -> (valid values, values the packer is expected to refuse); the first valid ones are the base candidates
ALPHA: dict = {
    "?": ([True, False], []),
    "B": ([1, 0, 255], [256]),
    "H": ([1, 0, 65535], [65536]),
    "I": ([1, 0, 2 ** 32 - 1], [-1]),
    "l": ([1, -1, 2 ** 31 - 1], []),
    "q": ([1, 0, -1, 2 ** 63 - 1, -2 ** 63], [2 ** 63]),
    "Q": ([1, 0, 2 ** 64 - 1], []),
    "c": ([b"a", b"\x00"], [b"ab"]),
    "f": ([1.5, 0.0], []),
    "d": ([1.5, 0.0, -0.0, float("inf")], []),
    "20s": ([bytes(range(20)), bytes(20)], []),
    "32s": ([bytes(range(32)), bytes(32)], []),
    "64s": ([bytes(range(64))], []),
    "74s": ([bytes(range(74))], []),
    "BBH": ([(1, 2, 3)], []), "BH": ([(1, 2)], []), "HH": ([(1, 2)], []), "LL": ([(1, 2)], []),
    "QH": ([(1, 2)], []), "QL": ([(1, 2)], []), "QQHHBH": ([(1, 2, 3, 4, 5, 6)], []),
    "ccB": ([(b"a", b"b", 1)], []), "4SH": ([(b"abcd", 5)], []), "c20s": ([(b"a", bytes(20))], []),
    "bits": (BITS, []),
    "ipv4": ([("1.2.3.4", 5), ("0.0.0.0", 0), UDPv4Address("255.255.255.255", 65535)], [("::1", 8)]),
    "ip_address": ([("1.2.3.4", 5), ("::1", 8)], [("host.example", 80)]),
    "address": ([("1.2.3.4", 5), ("::1", 8), ("host.example", 80)], []),
    "raw": ([b"\x01\x02", b""], []),
    "varlenBx2": ([b"ab", b""], []),
    "varlenH": ([b"ab", b"", b"\x00" * 300], []),
    "varlenI": ([b"ab", b""], []),
    "doublevarlenH": ([b"ab", b""], []),
    "varlenHutf8": (["ab", "", "é€"], [b"ab"]),
    "varlenIutf8": (["ab", ""], []),
    "varlenHx20": ([bytes(range(20)), b""], []),
    "varlenH-list": ([[b"a", b""], []], []),
    "arrayH-?": ([[True, False], []], []),
    "arrayH-q": ([[1, -1], [], [2 ** 63 - 1]], [[2 ** 63]]),
    "arrayH-d": ([[1.5], []], []),
    "flags": ([[1, 4], []], []),
    "payload": (C1_VALUES, []),
    "payload-list": ([[C2_VALUES[0], C2_VALUES[1]], [], [C2_VALUES[2]]], []),
}

# Default-value tokens that are *appropriate* for the format of the last field (what real code would write).
DEFAULTS: dict = {
    "?": ["bool:True"], "B": ["int:3"], "H": ["int:3"], "I": ["int:3"], "l": ["int:3"], "q": ["int:3"], "Q": ["int:3"],
    "f": ["float:1.5"], "d": ["float:1.5", "float:inf"],
    "raw": ["bytes:", "bytes:ab"], "varlenH": ["bytes:", "bytes:ab"], "varlenI": ["bytes:ab"],
    "varlenHutf8": ["str:", "str:ab", "str:0"], "varlenIutf8": ["str:ab"],
    "bits": ["int:0", "bool:True"],
    "ipv4": ["tuple:addr", "nt:addr"], "ip_address": ["tuple:addr"], "address": ["tuple:addr", "nt:addr"],
    "payload": ["payload:C1"],
    "payload-list": ["list:empty", "tuple:empty"],
    "arrayH-q": ["list:empty", "list:ints", "tuple:empty"], "arrayH-?": ["list:empty"], "arrayH-d": ["tuple:empty"],
    "varlenH-list": ["list:empty"],
}


def default_value(token: str):  # noqa: ANN201
    """A fresh default object for the token (nested payload defaults are descriptors, materialised per form)."""
    kind, _, arg = token.partition(":")
    if kind == "none":
        return None
    if kind == "int":
        return int(arg)
    if kind == "bool":
        return arg == "True"
    if kind == "float":
        return float(arg)
    if kind == "bytes":
        return arg.encode()
    if kind == "str":
        return arg
    if kind == "tuple":
        return ("1.2.3.4", 5) if arg == "addr" else ()
    if kind == "nt":
        return UDPv4Address("1.2.3.4", 5)
    if kind == "list":
        return [] if arg == "empty" else [1, 2]
    if kind == "payload":
        return K("C1", 9, b"d")
    raise ValueError(token)


def default_source(token: str) -> str:
    kind = token.partition(":")[0]
    if kind == "nt":
        return "UDPv4Address('1.2.3.4', 5)"
    if kind == "payload":
        return "C1(9, b'd')"
    return repr(default_value(token))


# ------------------------------------------------------------------------------------------------
# definitions
# ------------------------------------------------------------------------------------------------

# Order of first use.  DataClassPayload converts a class lazily (at its first instantiation) and keeps the result in
# class attributes that subclasses inherit, so "who is used first, and how" is part of the input:
#   None            the class itself is constructed first (then packed, then decoded)
#   "decode"        the class itself is decoded first (a node that receives a message before it ever built one)
#   "parent-ctor"   derived shapes: an instance of the base class is constructed before the class is used
#   "parent-decode" derived shapes: the base class is decoded before the class is used
#   "parent-ctor+decode", "parent-decode+decode"   the base class is used, then the class itself is decoded first
FIRST_USES = (None, "decode", "parent-ctor", "parent-decode", "parent-ctor+decode", "parent-decode+decode")


class Spec:
    """Python-level view of a JSON definition."""

    def __init__(self, defn: dict) -> None:
        self.defn = defn
        self.lib = None
        if "lib" in defn:
            self.lib = cls = library_classes()[defn["lib"]]
            self.fields = []
            for f in cls.format_list:
                if isinstance(f, str):
                    self.fields.append(f)
                elif isinstance(f, list):
                    self.fields.append(("clslist", f[0]))
                else:
                    self.fields.append(("cls", f))
            self.names = list(cls.names)
            self.default = None
            self.hooks, self.styles = {}, {}
            self.shape = "wid" if issubclass(cls, VariablePayloadWID) and hasattr(cls, "msg_id") else "flat"
            self.msg_id = getattr(cls, "msg_id", None)
        else:
            self.fields = [{"payload": ("kid", "C1"), "payload-list": ("kidlist", "C2")}.get(f, f) for f in defn["f"]]
            self.names = []
            for i, f in enumerate(defn["f"]):
                self.names += [f"f{i}b{b}" for b in range(8)] if f == "bits" else [f"f{i}"]
            self.default = defn.get("dflt")
            # a hook is [name index, "mode" or "mode/binding style"]; mode: both | pack | unpack
            self.hooks = {int(i): m.partition("/")[0] for i, m in defn.get("hooks", [])}
            self.styles = {int(i): m.partition("/")[2] or "plain" for i, m in defn.get("hooks", [])}
            if any(x not in RULE_STYLES for x in self.styles.values()):
                msg = f"unknown rule binding style: {defn}"
                raise ValueError(msg)
            self.shape = defn.get("shape", "flat")
            self.msg_id = MSG_ID if self.shape == "wid" else None
        self.old = int(self.shape[3:]) if self.shape.startswith("old") else 0     # leading fields of an old-style base
        if self.old and (self.old >= len(self.fields) or "bits" in self.fields[:self.old]):
            msg = f"an old-style base holds 1-2 leading non-bits fields and the class adds at least one: {defn}"
            raise ValueError(msg)
        self.first = defn.get("first")        # which class is used first, and how (class state is built lazily)
        if self.first not in FIRST_USES or (str(self.first).startswith("parent")
                                            and not self.shape.startswith("derived")):
            msg = f"no such order of first use for this shape: {defn}"
            raise ValueError(msg)
        # alias: every form is used through an undecorated, field-less subclass of the definition (how one field layout
        # is re-used for a second message); shapes flat / wid only, default order of first use
        self.alias = bool(defn.get("alias"))
        if self.alias and (self.first or self.shape not in ("flat", "wid") or self.lib is not None):
            msg = f"alias is defined for flat / wid definitions used in the default order: {defn}"
            raise ValueError(msg)
        self.slices = []                      # per field: (first name index, number of names)
        j = 0
        for f in self.fields:
            n = 8 if f == "bits" else 1
            self.slices.append((j, n))
            j += n
        if j != len(self.names):
            msg = f"names do not match formats: {defn}"
            raise ValueError(msg)

    def parent(self) -> Spec | None:
        """The definition of the base class of a derived shape (it holds the first field), as a program of its own."""
        if not self.shape.startswith("derived"):
            return None
        n = self.slices[0][1]
        hooks = [[i, m] for i, m in self.defn.get("hooks", []) if i < n]
        return Spec({"f": [self.defn["f"][0]], **({"hooks": hooks} if hooks else {})})

    def alpha_key(self, f) -> str:  # noqa: ANN001
        if isinstance(f, tuple):
            return "payload" if f[0] in ("kid", "cls") else "payload-list"
        return f

    def field_values(self, i: int) -> tuple:
        f = self.fields[i]
        if isinstance(f, tuple) and f[0] in ("cls", "clslist"):
            vals = library_values(f[1])
            return (vals if f[0] == "cls" else [[vals[0], vals[-1]], [], [vals[-1]]]), []
        if f == "node-list":
            n = nodes()
            return [[n[0], n[1]], [], [n[2]]], []
        return ALPHA[self.alpha_key(f)]


def _pick(i: int, v):  # noqa: ANN001, ANN202
    return v[i]


def _tag(t: str, v) -> tuple:  # noqa: ANN001
    return (t, v)


class _Wrap:
    """A callable object: like a builtin, it is not a descriptor, so it is never bound to the instance or class."""

    def __call__(self, v) -> tuple:  # noqa: ANN001
        return ("W", v)


# How a fix_pack_/fix_unpack_ rule is bound in the class body.  Every rule does the same thing (pack: v -> v[1],
# unpack: v -> ("W", v)); only the way Python hands it its arguments differs.
#   plain     def fix_pack_x(self, v) / @classmethod def fix_unpack_x(cls, v)        (the documented spelling)
#   static    @staticmethod for both (the docstring's own example is socket.inet_aton, which needs this or 'callable')
#   class     @classmethod for both
#   callable  a non-descriptor callable assigned in the class body (operator.itemgetter(1) / a callable object)
#   partial   functools.partial(...) assigned in the class body
#   bare      unpack rule only: an undecorated one-argument function (it is only ever fetched from the class)
#   instance  pack rule only: no class attribute, the rule is set on every instance right after construction
RULE_STYLES = ("plain", "static", "class", "callable", "partial", "bare", "instance")
PACK_RULES = {
    "plain": lambda self, v: v[1],  # noqa: ARG005
    "static": staticmethod(lambda v: v[1]),
    "class": classmethod(lambda cls, v: v[1]),  # noqa: ARG005
    "callable": operator.itemgetter(1),
    "partial": functools.partial(_pick, 1),
}
PACK_RULES["bare"] = PACK_RULES["plain"]
UNPACK_RULES = {
    "plain": classmethod(lambda cls, v: ("W", v)),  # noqa: ARG005
    "static": staticmethod(lambda v: ("W", v)),
    "callable": _Wrap(),
    "partial": functools.partial(_tag, "W"),
    "bare": lambda v: ("W", v),
}
UNPACK_RULES["class"] = UNPACK_RULES["instance"] = UNPACK_RULES["plain"]
RULE_SOURCE = {
    ("pack", "plain"): "    def fix_pack_{n}(self, v): return v[1]",
    ("pack", "static"): "    @staticmethod\n    def fix_pack_{n}(v): return v[1]",
    ("pack", "class"): "    @classmethod\n    def fix_pack_{n}(cls, v): return v[1]",
    ("pack", "callable"): "    fix_pack_{n} = operator.itemgetter(1)",
    ("pack", "partial"): "    fix_pack_{n} = functools.partial(lambda i, v: v[i], 1)",
    ("pack", "instance"): "    # every instance gets, right after construction:  obj.fix_pack_{n} = lambda v: v[1]",
    ("unpack", "plain"): "    @classmethod\n    def fix_unpack_{n}(cls, v): return ('W', v)",
    ("unpack", "static"): "    @staticmethod\n    def fix_unpack_{n}(v): return ('W', v)",
    ("unpack", "callable"): "    fix_unpack_{n} = Wrap()   # object with __call__(self, v): return ('W', v)",
    ("unpack", "partial"): "    fix_unpack_{n} = functools.partial(lambda t, v: (t, v), 'W')",
    ("unpack", "bare"): "    def fix_unpack_{n}(v): return ('W', v)",
}
RULE_SOURCE[("pack", "bare")] = RULE_SOURCE[("pack", "plain")]
RULE_SOURCE[("unpack", "class")] = RULE_SOURCE[("unpack", "instance")] = RULE_SOURCE[("unpack", "plain")]


def hook_fns(mode: str, style: str = "plain") -> dict:
    out = {}
    if mode in ("both", "pack") and style != "instance":
        out["fix_pack_"] = PACK_RULES[style]
    if mode in ("both", "unpack"):
        out["fix_unpack_"] = UNPACK_RULES[style]
    return out


def _hook_ns(spec: Spec, idxs) -> dict:  # noqa: ANN001
    ns = {}
    for i in idxs:
        if i in spec.hooks:
            for prefix, fn in hook_fns(spec.hooks[i], spec.styles[i]).items():
                ns[prefix + spec.names[i]] = fn
    if spec.lib is not None:  # the shipped classes have no hooks today; copy them if they ever get some
        for k, v in vars(spec.lib).items():
            if k.startswith(("fix_pack_", "fix_unpack_")):
                ns[k] = v
    return ns


def _fmt_objects(spec: Spec, kids: dict) -> list:
    out = []
    for f in spec.fields:
        if isinstance(f, tuple):
            cls = kids[f[1]] if f[0] in ("kid", "kidlist") else f[1]
            out.append([cls] if f[0].endswith("list") else cls)
        else:
            out.append(f)
    return out


def _wrapped_default(spec: Spec, kids: dict):  # noqa: ANN202
    """The default object as the constructor would receive it (wrapped if the last field has a packing hook)."""
    d = mat(default_value(spec.default), kids)
    if spec.hooks.get(len(spec.names) - 1) in ("both", "pack"):
        d = ("W", d)
    return d


def build_plain(spec: Spec, kids: dict, compiled: bool) -> type:
    """The interpreted definition, or the same class statement passed through vp_compile."""
    fmts = _fmt_objects(spec, kids)
    names = list(spec.names)
    parent: type = VariablePayloadWID if spec.shape == "wid" else VariablePayload
    base_names = 0
    if spec.shape in ("derived", "derived-pb"):
        base_names = spec.slices[0][1]
        ns = {"format_list": fmts[:1], "names": names[:base_names], "__module__": SCRATCH,
              **_hook_ns(spec, range(base_names))}
        parent = type("C20Base", (VariablePayload,), ns)
        if compiled and spec.shape == "derived":
            parent = vp_compile(parent)
    bases: tuple = (parent,)
    if spec.old:
        bases = (VariablePayload, build_old_base(spec, fmts))      # class New(VariablePayload, OldStylePayload)
    ns = {"format_list": fmts, "names": names, "__module__": SCRATCH, **_hook_ns(spec, range(base_names, len(names)))}
    if spec.msg_id is not None:
        ns["msg_id"] = spec.msg_id
    ref: list = []
    if spec.default is not None:
        # the documented way to give a VariablePayload a default (see CompiledF in test_lazy_payload.py)
        src = (f"def __init__(self, {', '.join(names[:-1] + [names[-1] + '=_default'])}, **kwargs):\n"
               f"    super(_ref[0], self).__init__({', '.join(names)}, **kwargs)\n")
        scope = {"_default": _wrapped_default(spec, kids), "_ref": ref}
        exec(compile(src, "<c20 interpreted __init__>", "exec"), scope)  # noqa: S102
        ns["__init__"] = scope["__init__"]
    cls = type("C20Payload", bases, ns)
    ref.append(cls)
    return vp_compile(cls) if compiled else cls


def build_old_base(spec: Spec, fmts: list) -> type:
    """
    A hand-written ("old-style") Payload holding the leading ``spec.old`` fields: explicit __init__ storing its
    arguments, explicit to_pack_list / from_unpack_list (like OldA in test_lazy_payload.py).
    """
    k = spec.old
    names = spec.names[:k]
    tags = [VariablePayload._to_packlist_fmt(f) for f in fmts[:k]]  # noqa: SLF001
    src = (f"def __init__(self, {', '.join(names)}):\n" + "".join(f"    self.{n} = {n}\n" for n in names)
           + "def to_pack_list(self):\n    return [" + ", ".join(f"({t!r}, self.{n})" for t, n in zip(tags, names)) + "]\n"
           + "def from_unpack_list(cls, *args):\n    return cls(*args)\n")
    scope: dict = {}
    exec(compile(src, "<c20 old-style payload>", "exec"), scope)  # noqa: S102
    return type("C20OldBase", (Payload,), {"format_list": fmts[:k], "__init__": scope["__init__"],
                                           "to_pack_list": scope["to_pack_list"],
                                           "from_unpack_list": classmethod(scope["from_unpack_list"]),
                                           "__module__": SCRATCH})


class Inexpressible(Exception):  # noqa: N818
    """The dataclass form cannot state this definition (reason in args[0])."""


NATIVE = {"?": bool, "q": int, "d": float, "varlenH": bytes, "varlenHutf8": str,
          "arrayH-q": list[int], "arrayH-?": list[bool], "arrayH-d": list[float]}
ALT = {"arrayH-q": tuple[int], "arrayH-?": tuple[bool], "arrayH-d": set[float]}


def dc_styles(spec: Spec) -> list[str]:
    out = ["typevar"]
    if any(f in NATIVE for f in spec.fields if isinstance(f, str)):
        out.append("native")
    if any((f in ALT) if isinstance(f, str) else f[0].endswith("list") for f in spec.fields):
        out.append("alt")
    return out


def _dc_type(f, style: str, kids: dict):  # noqa: ANN001, ANN202
    if isinstance(f, tuple):
        cls = kids[f[1]] if f[0] in ("kid", "kidlist") else f[1]
        if f[0].endswith("list"):
            return [cls] if style == "alt" else list[cls]
        return cls
    if style == "native" and f in NATIVE:
        return NATIVE[f]
    if style == "alt" and f in ALT:
        return ALT[f]
    if style == "alt" and f in NATIVE:
        return NATIVE[f]
    return type_from_format(f)


def _dc_type_source(f, style: str) -> str:  # noqa: ANN001
    if isinstance(f, tuple):
        name = f[1] if isinstance(f[1], str) else f[1].__name__
        return name if not f[0].endswith("list") else (f"[{name}]" if style == "alt" else f"list[{name}]")
    t = _dc_type(f, style, {})
    if isinstance(t, TypeVar):
        return f'type_from_format("{f}")'
    return t.__name__ if isinstance(t, type) else repr(t)


def build_dc(spec: Spec, style: str, kids: dict) -> type:
    """@dataclass class P(DataClassPayload): ...  raises Inexpressible if the dataclass syntax cannot say it."""
    if "bits" in spec.fields:
        raise Inexpressible("bits")           # one dataclass field is one name; "bits" needs eight
    if spec.old:
        raise Inexpressible("old-style-base")  # the fields of a hand-written base are not dataclass fields
    base: type = DataClassPayload[spec.msg_id] if spec.msg_id is not None else DataClassPayload
    first = 0
    if spec.shape in ("derived", "derived-pb"):
        ns = {"__annotations__": {spec.names[0]: _dc_type(spec.fields[0], style, kids)}, "__module__": SCRATCH,
              **_hook_ns(spec, range(1))}
        base = _dataclass(type("C20Base", (DataClassPayload,), ns))
        first = 1
    ann = {}
    ns = {"__annotations__": ann, "__module__": SCRATCH, **_hook_ns(spec, range(first, len(spec.names)))}
    for i in range(first, len(spec.fields)):
        ann[spec.names[i]] = _dc_type(spec.fields[i], style, kids)
    if spec.default is not None:
        d = _wrapped_default(spec, kids)
        if isinstance(d, list):             # dataclasses refuse list defaults: default_factory is the only spelling
            ns[spec.names[-1]] = dataclasses.field(default_factory=lambda d=d: list(d))
        else:
            ns[spec.names[-1]] = d
    return _dataclass(type("C20Payload", (base,), ns))


def _dataclass(cls: type) -> type:
    try:
        return dataclasses.dataclass(cls)
    except Exception as e:  # noqa: BLE001 - raised by the standard library decorator, before any ipv8 code runs
        raise Inexpressible(f"dataclass-decorator:{type(e).__name__}") from e


_KIDS: dict = {}


def kids_for(form: str) -> dict:
    """The nested payload classes C1 = [H, varlenH], C2 = [varlenHutf8, [C1]] in the given form (built once)."""
    if form not in _KIDS:
        if form == "dataclass":
            c1 = dataclasses.dataclass(type("C1", (DataClassPayload,), {
                "__annotations__": {"x": type_from_format("H"), "y": bytes}, "__module__": SCRATCH}))
            c2 = dataclasses.dataclass(type("C2", (DataClassPayload,), {
                "__annotations__": {"s": str, "items": list[c1]}, "__module__": SCRATCH}))
        else:
            c1 = type("C1", (VariablePayload,), {"format_list": ["H", "varlenH"], "names": ["x", "y"],
                                                 "__module__": SCRATCH})
            c2 = type("C2", (VariablePayload,), {"format_list": ["varlenHutf8", [c1]], "names": ["s", "items"],
                                                 "__module__": SCRATCH})
            if form == "compiled":
                c1, c2 = vp_compile(c1), vp_compile(c2)
        _KIDS[form] = {"C1": c1, "C2": c2}
    return _KIDS[form]


# ------------------------------------------------------------------------------------------------
# shipped payloads
# ------------------------------------------------------------------------------------------------

_LIB: dict = {}
_NODES: list = []


def library_classes() -> dict:
    """Every concrete VariablePayload subclass defined in ipv8 (tests excluded), by 'module.Class'."""
    if not _LIB:
        root = os.path.dirname(ipv8.__file__)
        for path, dirs, files in sorted(os.walk(root)):
            dirs[:] = sorted(d for d in dirs if d not in ("test", "lan_addresses", "scripts", "__pycache__"))
            for fn in sorted(files):
                if not fn.endswith(".py") or fn == "__main__.py":
                    continue
                rel = os.path.relpath(os.path.join(path, fn), os.path.dirname(root))[:-3]
                name = rel.replace(os.sep, ".").removesuffix(".__init__")
                try:
                    importlib.import_module(name)
                except Exception:  # noqa: BLE001, S112 - optional dependencies
                    continue
        seen: list = []

        def walk(c: type) -> None:
            for s in c.__subclasses__():
                if s not in seen:
                    seen.append(s)
                    walk(s)
        walk(VariablePayload)
        for c in seen:
            if c.__module__.startswith("ipv8.") and ".test" not in c.__module__ and c.format_list:
                _LIB[f"{c.__module__}.{c.__name__}"] = c
    return _LIB


def nodes() -> list:
    if not _NODES:
        from ipv8.dht.routing import Node
        _NODES.extend(Node(fixtures.public_bin(i), address=UDPv4Address(f"10.0.0.{i + 1}", 1000 + i)) for i in range(3))
    return _NODES


def library_values(cls: type) -> list:
    """Two instances of a shipped payload class used as a nested value (IntroductionInfo is the only one today)."""
    spec = Spec({"lib": f"{cls.__module__}.{cls.__name__}"})
    rows = []
    for pick in (0, -1):
        args = []
        for i in range(len(spec.fields)):
            v = spec.field_values(i)[0][pick]
            args += list(v) if spec.fields[i] == "bits" else [v]
        rows.append(K(cls, *args))
    return rows


# ------------------------------------------------------------------------------------------------
# calls
# ------------------------------------------------------------------------------------------------

def mat(v, kids: dict):  # noqa: ANN001, ANN201
    if type(v) is K:
        cls = kids[v.role] if isinstance(v.role, str) else v.role
        return cls(*[mat(a, kids) for a in v.args])
    if type(v) is list:
        return [mat(x, kids) for x in v]
    if type(v) is tuple:
        return tuple(mat(x, kids) for x in v)
    return v


def enum_calls(spec: Spec, seed: int, b: dict) -> list[tuple]:
    """
    All constructor calls of the bounded instance space, as (style, args, kwargs, valid, deviations) with
    descriptor values.

    Bounds ``b``: ``trim`` = number of valid alphabet values per field (None: all; the alphabet is rotated by the
    seed first, so different seeds use different slices) plus one refused value; ``dev`` = the base instance and
    every instance that differs from it in at most ``dev`` fields, each field ranging over its whole (trimmed)
    alphabet; ``wide`` = the largest deviation count whose vectors also get the K keyword, M mixed and PD/KD
    default-relying styles (P positional is applied to every vector).  Malformed calls are made on the base
    vector of hook-free flat programs (they only feed statistics: the oracle is one-directional).
    The base vector comes first.
    """
    nf = len(spec.fields)
    alpha = []
    for i in range(nf):
        valid, invalid = spec.field_values(i)
        r = (seed + i) % len(valid)
        valid = valid[r:] + valid[:r]
        if b["trim"]:
            valid, invalid = valid[:b["trim"]], invalid[:1]
        alpha.append(valid + invalid)
    base = [a[0] for a in alpha]
    vectors = [(0, tuple(base))]
    for d in range(1, b["dev"] + 1):
        for pos in combinations(range(nf), d):
            for combo in product(*[alpha[p][1:] for p in pos]):
                vec = list(base)
                for p, v in zip(pos, combo):
                    vec[p] = v
                vectors.append((d, tuple(vec)))

    def flat(vec: tuple) -> list:
        out = []
        for i, v in enumerate(vec):
            out += list(v) if spec.fields[i] == "bits" else [v]
        return [("W", v) if spec.hooks.get(j) in ("both", "pack") else v for j, v in enumerate(out)]

    names = spec.names
    calls, seen = [], set()

    def add(style: str, args: list, kwargs: dict, valid: bool = True) -> None:
        k = repr((style, args, kwargs))
        if k not in seen:
            seen.add(k)
            calls.append((style, args, kwargs, valid, n))

    for n, vec in vectors:
        vals = flat(vec)
        add("P", vals, {})
        if n <= b["wide"]:
            add("K", [], dict(reversed(list(zip(names, vals)))))
            if len(names) > 1:
                add("M", vals[:1], dict(zip(names[1:], vals[1:])))
            if spec.default is not None:
                add("PD", vals[:-1], {})
                add("KD", [], dict(zip(names[:-1], vals[:-1])))
        if n == 0 and not spec.hooks and spec.shape == "flat":
            if spec.default is None:
                add("P-", vals[:-1], {}, False)
            add("P+", [*vals, 0], {}, False)
            add("K?", [], {**dict(zip(names, vals)), "zz_unknown": 0}, False)
            add("PK", vals, {names[0]: vals[0]}, False)
    return calls


_MISSING = object()


def canon(v):  # noqa: ANN001, ANN201
    """Form-independent rendering of a field value (class names of generated payloads are dropped)."""
    if v is _MISSING:
        return ("missing",)
    if isinstance(v, Serializable) and hasattr(type(v), "names"):
        return ("P", tuple((n, canon(getattr(v, n, _MISSING))) for n in type(v).names))
    if isinstance(v, (list, tuple)):
        return (type(v).__name__, tuple(canon(x) for x in v))
    if hasattr(v, "public_key") and hasattr(v, "address"):
        return ("Peer", v.public_key.key_to_bin().hex(), canon(v.address))
    return (type(v).__name__, repr(v))


def attrs(spec: Spec, obj) -> tuple:  # noqa: ANN001
    out = tuple(canon(getattr(obj, n, _MISSING)) for n in spec.names)
    if spec.msg_id is not None:
        out += (("msg_id", canon(getattr(obj, "msg_id", _MISSING))),)
    return out


def run_call(spec: Spec, cls: type, kids: dict, call: tuple) -> dict:
    """construct -> attributes -> pack -> unpack -> attributes; stops at the first stage that raises."""
    a, kw = call[1], call[2]
    r: dict = {}
    try:
        obj = cls(*[mat(x, kids) for x in a], **{k: mat(x, kids) for k, x in kw.items()})
    except Exception as e:  # noqa: BLE001
        r["construct"] = _exc(e)
        return r
    r["values"] = attrs(spec, obj)
    for j, style in spec.styles.items():
        if style == "instance" and spec.hooks[j] in ("both", "pack"):
            setattr(obj, "fix_pack_" + spec.names[j], lambda v: v[1])
    try:
        r["bytes"] = SER.pack_serializable(obj)
    except Exception as e:  # noqa: BLE001
        r["pack"] = _exc(e)
        return r
    try:
        obj2, off = SER.unpack_serializable(cls, r["bytes"])
    except Exception as e:  # noqa: BLE001
        r["unpack"] = _exc(e)
        return r
    r["decoded"] = (attrs(spec, obj2), off)
    return r


def _exc(e: Exception) -> tuple:
    return (type(e).__name__, " ".join(str(e).split())[:160])


def expected_bytes(spec: Spec, call: tuple):  # noqa: ANN201
    """
    Independent expectation for a well-formed call: the concatenation of what the serializer's packer of every field
    makes of the (hook-unwrapped) argument of that field.  None if the call is malformed or a packer refuses a value.
    """
    if not call[3]:
        return None
    ikids = kids_for("interp")
    byname = dict(zip(spec.names, call[1]))
    byname.update(call[2])
    if spec.default is not None:
        byname.setdefault(spec.names[-1], _MISSING)
    if set(byname) != set(spec.names) or len(call[1]) > len(spec.names):
        return None
    raw = []
    for j, n in enumerate(spec.names):
        v = _wrapped_default(spec, ikids) if byname[n] is _MISSING else mat(byname[n], ikids)
        raw.append(v[1] if spec.hooks.get(j) in ("both", "pack") else v)
    out = b""
    for f, (a, n) in zip(spec.fields, spec.slices):
        tag = f if isinstance(f, str) else ("payload-list" if f[0].endswith("list") else "payload")
        try:
            out += SER.get_packer_for(tag).pack(*raw[a:a + n])
        except Exception:  # noqa: BLE001
            return None
    return out


STAGES = [("construct", "values", "constructed-values"), ("pack", "bytes", "bytes"), ("unpack", "decoded", "decoded-values")]


def compare(ref: dict, got: dict):  # noqa: ANN201
    """(oracle, detail) for the first stage at which ``got`` departs from an *accepting* reference, else None."""
    for raises, value, oracle in STAGES:
        if raises in ref:
            return ("ref-rejects", None) if raises not in got else None   # nothing to compare with: not a violation
        if raises in got:
            return (raises, f"raises {got[raises][0]}: {got[raises][1]}")
        if ref[value] != got[value]:
            return (oracle, f"{_show(got[value])} instead of {_show(ref[value])}")
    return None


def _show(x) -> str:  # noqa: ANN001
    s = x.hex() if isinstance(x, bytes) else repr(x)
    return s if len(s) <= 300 else s[:300] + "..."


# ------------------------------------------------------------------------------------------------
# one program
# ------------------------------------------------------------------------------------------------

def evaluate(defn: dict, seed: int, b: dict, only_call: int | None = None) -> tuple[Counter, list]:
    """
    Returns (statistics, violations); a violation is a dict(oracle, form, style, call, detail, exc).
    At most one violation per (oracle, form) is kept per program.
    """
    st: Counter = Counter()
    viol: list = []
    spec = Spec(defn)
    ikids = kids_for("interp")

    def alias(cls: type) -> type:
        return type("C20Alias", (cls,), {"__module__": SCRATCH}) if spec.alias else cls
    ref_cls = alias(build_plain(spec, ikids, compiled=False))     # an exception here is a harness bug: let it propagate
    forms: list = []                                       # (form, style, class, kids)
    build_failed: dict = {}

    def found(oracle: str, form: str, style, call, detail: str, exc: str = "") -> None:  # noqa: ANN001
        if not any(v["oracle"] == oracle and v["form"] == form for v in viol):
            viol.append({"oracle": oracle, "form": form, "dc_style": style, "call": call, "detail": detail, "exc": exc})

    if spec.lib is not None:
        forms.append(("shipped", None, spec.lib, ikids))      # the class as shipped is the compiled form
    else:
        try:
            ckids = kids_for("compiled")
            forms.append(("compiled", None, alias(build_plain(spec, ckids, compiled=True)), ckids))
        except Exception as e:  # noqa: BLE001
            build_failed["compiled"] = type(e).__name__
            found("build", "compiled", None, None, f"vp_compile raises {_exc(e)[0]}: {_exc(e)[1]}", type(e).__name__)
    for style in dc_styles(spec):
        try:
            dkids = kids_for("dataclass")
            forms.append(("dataclass", style, alias(build_dc(spec, style, dkids)), dkids))
        except Inexpressible as e:
            st[f"dataclass_inexpressible:{e.args[0]}"] += 1
        except Exception as e:  # noqa: BLE001
            found("build", "dataclass", style, None, f"class statement raises {_exc(e)[0]}: {_exc(e)[1]}",
                  type(e).__name__)
    st["programs"] += 1
    st["forms_built"] += len(forms)

    pspec = spec.parent()
    for event in (spec.first or "").split("+") if spec.first else ():
        # the first uses of the classes: every form (fresh classes, nothing instantiated yet) does the same thing
        tspec, pick = (pspec, lambda c: c.__mro__[1]) if event.startswith("parent") else (spec, lambda c: c)
        call = enum_calls(tspec, seed, {**b, "dev": 0, "wide": -1})[0]
        ref = run_call(tspec, pick(build_plain(spec, ikids, compiled=False)), ikids, call)   # on a throw-away twin
        if "decoded" not in ref:
            continue
        st["first_use_events"] += 1
        for form, style, cls, kids in [("interp", None, ref_cls, ikids), *forms]:
            got: dict = {}
            try:
                if event.endswith("ctor"):
                    got["values"] = attrs(tspec, pick(cls)(*[mat(x, kids) for x in call[1]]))
                else:
                    obj, off = SER.unpack_serializable(pick(cls), ref["bytes"])
                    got["decoded"] = (attrs(tspec, obj), off)
            except Exception as e:  # noqa: BLE001
                got["raises"] = _exc(e)
            st["form_executions"] += 1
            what = (f"first use = {spec.first}: {event} of {'Base' if event.startswith('parent') else 'P'}"
                    f"{_call_source(call)[1:]} ({ref['bytes'].hex()})")
            if "raises" in got:
                found("first-use", form, style, None, f"{what}: raises {got['raises'][0]}: {got['raises'][1]}",
                      got["raises"][0])
            else:
                k = "values" if "values" in got else "decoded"
                if got[k] != ref[k]:
                    found("first-use", form, style, None, f"{what}: {_show(got[k])} instead of {_show(ref[k])}")

    calls = enum_calls(spec, seed, b)
    if pspec is not None:
        # both classes of a derived shape are compared: the base class is used after the first call on the class
        calls.insert(1, ("parent", *enum_calls(pspec, seed, {**b, "dev": 0, "wide": -1})[0][1:]))
    for idx, call in enumerate(calls):
        if only_call is not None and idx != only_call:
            continue
        if call[0] == "parent":
            ref = run_call(pspec, ref_cls.__mro__[1], ikids, call)
            st["calls"] += 1
            st["style:parent"] += 1
            for form, style, cls, kids in forms:
                got = run_call(pspec, cls.__mro__[1], kids, call)
                st["form_executions"] += 1
                v = compare(ref, got)
                if v is not None and v[0] != "ref-rejects":
                    found("parent-" + v[0], form, style, idx, f"Base{_call_source(call)[1:]}: {v[1]}",
                          got[v[0]][0] if v[0] in ("construct", "pack", "unpack") else "")
            continue
        ref = run_call(spec, ref_cls, ikids, call)
        st["calls"] += 1
        st[f"style:{call[0]}"] += 1
        if not call[3]:
            st["malformed_calls"] += 1
            st["malformed_calls_rejected_by_reference"] += "construct" in ref
        for stage in ("construct", "pack", "unpack"):
            if stage in ref:
                st[f"reference_{stage}_raises"] += 1
        if "decoded" in ref and ref["bytes"]:
            st["nontrivial"] += 1
        interp_bad = any(v["oracle"] == "expected" and v["form"] == "interp" for v in viol)
        want = expected_bytes(spec, call) if spec.old else None
        if want is not None:
            # old-style shapes: the interpreted form runs its legacy forwarding branch, so it is not trusted as the
            # only reference: every form, the interpreted one included, has to meet the independent expectation
            st["calls_with_independent_expectation"] += 1
            for form, cls, kids in [("interp", ref_cls, ikids)] + [(f, c, k) for f, _, c, k in forms]:
                got = ref if form == "interp" else run_call(spec, cls, kids, call)
                bad = next((f"{k} raises {got[k][0]}: {got[k][1]}" for k in ("construct", "pack", "unpack") if k in got),
                           None)
                if bad is None and got["bytes"] != want:
                    bad = f"bytes {got['bytes'].hex()} instead of {want.hex()}"
                if bad is not None:
                    interp_bad |= form == "interp"
                    found("expected", form, None, idx, f"{_call_source(call)}: {bad} (expected from the packers of "
                                                       f"the fields: {want.hex()})")
        compiled_bad = None
        for form, style, cls, kids in forms:
            if style not in (None, "typevar") and call[4] > b["wide"]:
                continue    # the extra annotation styles only change format_list: same vectors as the extra call styles
            got = run_call(spec, cls, kids, call)
            st["form_executions"] += 1
            v = compare(ref, got)
            if v is None:
                continue
            if v[0] == "ref-rejects":
                st["reference_rejects_but_form_accepts"] += 1
                if call[3] and not interp_bad:
                    # a well-formed call (right arguments for the definition) that only the interpreted form refuses:
                    # the forms do not behave alike, whichever of them is wrong
                    stage = next(k for k in ("construct", "pack", "unpack") if k in ref)
                    found("only-interpreted-fails", form, style, idx,
                          f"{_call_source(call)}: interpreted form {stage} raises {ref[stage][0]}: {ref[stage][1]}, "
                          f"{form} form does not", ref[stage][0])
                continue
            exc = got[v[0]][0] if v[0] in ("construct", "pack", "unpack") else ""
            if form in ("compiled", "shipped"):
                compiled_bad = (v[0], exc)
            elif form == "dataclass" and (compiled_bad == (v[0], exc) or
                                          (v[0] == "construct" and "compiled" in build_failed)):
                # the dataclass form is built on vp_compile: the same failure is the same defect, report it once
                st["dataclass_failures_also_in_compiled"] += 1
                continue
            found(v[0], form, style, idx, f"{_call_source(call)}: {v[1]}", exc)
    return st, viol


def _call_source(call: tuple) -> str:
    a, kw = call[1], call[2]
    return "P(" + ", ".join([repr(x) for x in a] + [f"{k}={v!r}" for k, v in kw.items()]) + ")"


def render(defn: dict, dc_style: str | None = "typevar") -> str:
    """Equivalent class statements, for humans."""
    spec = Spec(defn)
    if spec.lib is not None:
        return (f"shipped class {defn['lib']} (format_list={spec.lib.format_list!r}, names={spec.names!r})"
                + ("; its dataclass twin is decoded before it is ever constructed" if spec.first else ""))

    def fmt_src(f) -> str:  # noqa: ANN001
        return repr(f) if isinstance(f, str) else (f[1] if f[0] == "kid" else f"[{f[1]}]")
    lines = []
    wid = "VariablePayloadWID" if spec.shape == "wid" else "VariablePayload"
    hooks = []
    for i, mode in sorted(spec.hooks.items()):
        if mode in ("both", "pack"):
            hooks.append(RULE_SOURCE[("pack", spec.styles[i])].format(n=spec.names[i]))
        if mode in ("both", "unpack"):
            hooks.append(RULE_SOURCE[("unpack", spec.styles[i])].format(n=spec.names[i]))
    dsrc = None
    if spec.default is not None:
        dsrc = default_source(spec.default)
        if spec.hooks.get(len(spec.names) - 1) in ("both", "pack"):
            dsrc = f"('W', {dsrc})"
    if spec.shape.startswith("derived"):
        lines.append(f"class Base(VariablePayload):   # shape={spec.shape}: first field inherited from Base")
        wid = "Base"
    if spec.old:
        on = spec.names[:spec.old]
        lines.append(f"class Old(Payload):   # hand-written: format_list = [{', '.join(fmt_src(f) for f in spec.fields[:spec.old])}]"
                     f"; def __init__(self, {', '.join(on)}): " + "; ".join(f"self.{n} = {n}" for n in on)
                     + "; explicit to_pack_list / from_unpack_list")
        wid = "VariablePayload, Old"
    lines.append(f"class P({wid}):   # interpreted; compiled = @vp_compile on the same statement")
    if spec.msg_id is not None:
        lines.append(f"    msg_id = {spec.msg_id}")
    lines.append(f"    format_list = [{', '.join(fmt_src(f) for f in spec.fields)}]")
    lines.append(f"    names = {spec.names!r}")
    if dsrc is not None:
        n = spec.names
        lines.append(f"    def __init__(self, {', '.join(n[:-1] + [n[-1] + '=' + dsrc])}, **kwargs): "
                     f"super().__init__({', '.join(n)}, **kwargs)")
    lines += hooks
    if "bits" not in spec.fields and dc_style and not spec.old:
        base = f"DataClassPayload[{spec.msg_id}]" if spec.msg_id is not None else "DataClassPayload"
        first = 0
        if spec.shape.startswith("derived"):
            lines.append(f"@dataclass\nclass Base(DataClassPayload):\n    {spec.names[0]}: "
                         f"{_dc_type_source(spec.fields[0], dc_style)}")
            base, first = "Base", 1
        lines.append(f"@dataclass\nclass P({base}):   # annotation style {dc_style}")
        for i, f in enumerate(spec.fields):
            if i < first:
                continue
            d = ""
            if dsrc is not None and i == len(spec.fields) - 1:
                d = f" = field(default_factory=lambda: {dsrc})" if spec.default.startswith("list") else f" = {dsrc}"
            lines.append(f"    {spec.names[i]}: {_dc_type_source(f, dc_style)}{d}")
        lines += hooks
    if spec.alias:
        lines.append("class Alias(P): pass   # every form is constructed, packed and decoded through this subclass "
                     "(no decorator, no fields)")
    lines.append("# C1 = [H, varlenH] names [x, y]; C2 = [varlenHutf8, [C1]] names [s, items] (same form as P)")
    if spec.first:
        for event in spec.first.split("+"):
            lines.append({"decode": "# first use of P in the process: Serializer.unpack_serializable(P, <bytes>)",
                          "parent-ctor": "# before P is used for the first time: Base(<value>)",
                          "parent-decode": "# before P is used for the first time: "
                                           "Serializer.unpack_serializable(Base, <bytes>)"}[event])
    return "\n".join(lines)


# ------------------------------------------------------------------------------------------------
# program enumeration
# ------------------------------------------------------------------------------------------------

CORE = ["?", "H", "q", "d", "varlenH", "varlenHutf8", "bits", "ipv4", "address", "payload", "payload-list", "arrayH-q",
        "raw"]
SMALL = ["H", "varlenHutf8", "bits", "payload", "payload-list", "raw"]


def _seqs(alphabet: list, n: int) -> list[tuple]:
    """All sequences of length n; 'raw' swallows the rest of the buffer, so it is only meaningful last."""
    return [s for s in product(alphabet, repeat=n) if "raw" not in s[:-1]]


HOOKS_BASIC = ["", "both@first", "both@last", "pack@last", "unpack@first"]
HOOKS_MORE = ["pack@first", "unpack@last", "both@first,both@last", "both@bit3"]
# Program blocks.  (hook set, shape) combinations - PAIRS: every hook set on the flat shape, the other shapes without hooks and
# with a hook pair on the last name; FULL: the whole product.
BLOCKS = {
    # name: (format alphabet, length, combination mode, hook sets, shapes, instance bounds)
    "quick": [
        ("ALL", 1, "FULL", HOOKS_BASIC, ["flat", "wid"], {"dev": 1, "wide": 0, "trim": 2}),
        ("CORE", 2, "PAIRS", HOOKS_BASIC, ["flat", "wid", "derived"], {"dev": 1, "wide": 0, "trim": 2}),
        ("SMALL", 3, "PAIRS", HOOKS_BASIC, ["flat", "wid", "derived"], {"dev": 1, "wide": 0, "trim": 2}),
        ("SMALL", 2, "FULL", HOOKS_BASIC, ["flat", "derived"], {"dev": 1, "wide": 0, "trim": 2}),   # adds the styles only
        ("ROT12/4", 12, "PAIRS", HOOKS_BASIC, ["flat", "wid", "derived"], {"dev": 1, "wide": 0, "trim": 2}),
    ],
    "thorough": [
        ("ALL", 1, "FULL", HOOKS_BASIC + HOOKS_MORE, ["flat", "wid"], {"dev": 1, "wide": 1, "trim": None}),
        ("CORE", 2, "FULL", HOOKS_BASIC + HOOKS_MORE, ["flat", "wid", "derived", "derived-pb"],
         {"dev": 2, "wide": 1, "trim": None}),
        ("SMALL", 3, "FULL", HOOKS_BASIC + HOOKS_MORE, ["flat", "wid", "derived", "derived-pb"],
         {"dev": 2, "wide": 1, "trim": 3}),
        ("CORE", 3, "PAIRS", HOOKS_BASIC, ["flat", "wid", "derived"], {"dev": 1, "wide": 0, "trim": 3}),
        ("SMALL", 4, "PAIRS", HOOKS_BASIC, ["flat", "wid", "derived"], {"dev": 1, "wide": 0, "trim": 2}),
        ("ROT12/1", 12, "PAIRS", HOOKS_BASIC, ["flat", "wid", "derived"], {"dev": 1, "wide": 0, "trim": 2}),
    ],
}


OLD_BLOCKS = {
    "quick": {"bases": [("H",), ("H", "varlenH")], "own_short": SMALL, "own_3": SMALL,
              "hooks": ["", "both@first", "both@last"], "bounds": {"dev": 1, "wide": 0, "trim": 2}},
    "thorough": {"bases": [("H",), ("varlenH",), ("H", "varlenH"), ("payload", "q")], "own_short": CORE, "own_3": SMALL,
                 "hooks": HOOKS_BASIC, "bounds": {"dev": 2, "wide": 1, "trim": 3}},
}
# blocks (format alphabet, length) whose hooked, default-free programs are repeated in every rule binding style
STYLE_BLOCKS = {"quick": {("ALL", 1), ("SMALL", 2)}, "thorough": {("ALL", 1), ("CORE", 2), ("SMALL", 3)}}
FIRST_USE_DEV = {"quick": 0, "thorough": 1}     # instance deviations explored after a non-default first use


def _rot12(step: int) -> list[tuple]:
    """12-field programs: the rotations of the twelve CORE formats other than 'raw' (so 'bits', the nested payload
    and the list visit every position); every other one ends in 'raw' and has 'I' in place of 'bits', which makes
    it expressible as a dataclass."""
    ring = [f for f in CORE if f != "raw"]
    out = []
    for k in range(0, len(ring), step):
        seq = ring[k:] + ring[:k]
        if (k // step) % 2:
            seq = ["I" if f == "bits" else f for f in seq[:-1]] + ["raw"]
        out.append(tuple(seq))
    return out


def _hook_set(token: str, seq: tuple) -> list | None:
    """'both@first,both@last' -> [[name index, mode], ...]; None if the position does not exist in this sequence."""
    n_names = sum(8 if f == "bits" else 1 for f in seq)
    out = {}
    for part in filter(None, token.split(",")):
        mode, _, pos = part.partition("@")
        if pos == "bit3" and seq[0] != "bits":
            return None
        out[{"first": 0, "last": n_names - 1, "bit3": 3}[pos]] = mode
    return [[i, m] for i, m in sorted(out.items())]


def gen_defs(tier: str) -> tuple[list[tuple], list[dict]]:
    """Every program of the tier, as (definition, instance bounds); programs covered by an earlier block are skipped."""
    alphabets = {"ALL": [*REGISTERED, "payload", "payload-list"], "CORE": CORE, "SMALL": SMALL}
    items, seen, summary = [], set(), []
    for alpha, length, mode, hook_tokens, shapes, b in BLOCKS[tier]:
        n0, n_first, n_style, n_alias = len(items), 0, 0, 0
        seqs = _rot12(int(alpha[6:])) if alpha.startswith("ROT12") else _seqs(alphabets[alpha], length)
        for s in seqs:
            hook_sets = []
            for t in hook_tokens:
                h = _hook_set(t, s)
                if h is not None and h not in hook_sets:
                    hook_sets.append(h)
            ok_shapes = [x for x in shapes if length > 1 or not x.startswith("derived")]
            if mode == "FULL":
                combos = [(h, x) for h in hook_sets for x in ok_shapes]
            else:
                pair = _hook_set("both@last", s)
                combos = [(h, "flat") for h in hook_sets] + [(h, x) for x in ok_shapes[1:] for h in ([], pair)]
            for dflt in [None, *DEFAULTS.get(s[-1], []), "none"]:
                for h, shape in combos:
                    d = {"f": list(s)}
                    if dflt is not None:
                        d["dflt"] = dflt
                    if h:
                        d["hooks"] = h
                    if shape != "flat":
                        d["shape"] = shape
                    k = json.dumps(d, sort_keys=True)
                    if h and dflt is None and (alpha, length) in STYLE_BLOCKS[tier] and (
                            shape == "flat" or (shape == "derived" and h[0][0] == 0)):
                        # rule binding styles: same rule, bound differently in the class body; defaults take no
                        # part in it; 'derived' is kept where the rule sits on the inherited base class
                        for style in RULE_STYLES[1:]:
                            hs = [[i, f"{m}/{style}"] for i, m in h]
                            modes = {m for _, m in h}
                            if ((style == "bare" and modes == {"pack"}) or
                                    (style in ("instance", "class") and modes == {"unpack"})):
                                continue       # would be the plain spelling again
                            items.append(({**d, "hooks": hs}, {**b, "dev": min(b["dev"], 1)}))
                            n_style += 1
                    if k not in seen:
                        seen.add(k)
                        items.append((d, b))
                        if shape in ("flat", "wid") and "bits" not in s and (alpha, length) in STYLE_BLOCKS[tier]:
                            items.append(({**d, "alias": True}, {**b, "dev": min(b["dev"], 1)}))
                            n_alias += 1
                        if not h and dflt is None and "bits" not in s:
                            # orders of first use: only the dataclass form has lazily built class state, so programs
                            # without a dataclass form ('bits') are skipped; hooks and defaults do not take part in it
                            fb = {**b, "dev": min(b["dev"], FIRST_USE_DEV[tier]), "wide": 0}
                            for first in FIRST_USES[1:]:
                                if shape.startswith("derived") or not first.startswith("parent"):
                                    items.append(({**d, "first": first}, fb))
                                    n_first += 1
        fmts = {"ALL": f"all {len(alphabets['ALL'])} registered formats"}.get(alpha, alphabets.get(alpha, CORE))
        summary.append({"formats": fmts if not alpha.startswith("ROT12") else "every %s rotation of CORE" % (
                            {"1": "", "4": "4th"}[alpha[6:]]),
                        "length": length, "format_sequences": len(seqs),
                        "defaults_on_last_field": "absent | every format-appropriate value in DEFAULTS | None",
                        "hook_sets": hook_tokens, "shapes": shapes, "hooks_x_shapes": mode, "instance_bounds": b,
                        "programs": len(items) - n0, "of_which_first_use_orders": n_first,
                        "of_which_rule_binding_styles": n_style, "of_which_used_through_an_undecorated_subclass": n_alias})
    # old-style base: class P(VariablePayload, Old) where Old is a hand-written Payload holding 1-2 leading fields
    ob = OLD_BLOCKS[tier]
    n0 = len(items)
    own = [q for n in (1, 2) for q in _seqs(ob["own_short"], n)] + _seqs(ob["own_3"], 3)
    for base in ob["bases"]:
        for q in own:
            s = (*base, *q)
            for dflt in [None, *DEFAULTS.get(s[-1], []), "none"]:
                for t in ob["hooks"]:
                    d = {"f": list(s), "shape": f"old{len(base)}"}
                    if dflt is not None:
                        d["dflt"] = dflt
                    if _hook_set(t, s):
                        d["hooks"] = _hook_set(t, s)
                    items.append((d, ob["bounds"]))
    summary.append({"formats": f"old-style bases {ob['bases']} extended by 1-2 own fields over {ob['own_short']} and 3 own "
                               f"fields over {ob['own_3']}", "length": "2-5", "format_sequences": len(own) * len(ob["bases"]),
                    "defaults_on_last_field": "absent | every format-appropriate value in DEFAULTS | None",
                    "hook_sets": ob["hooks"], "shapes": ["old1", "old2"], "hooks_x_shapes": "FULL",
                    "instance_bounds": ob["bounds"], "programs": len(items) - n0, "of_which_first_use_orders": 0})
    return items, summary


def lib_defs() -> list[dict]:
    return [{"lib": k} for k in sorted(library_classes())]


# ------------------------------------------------------------------------------------------------
# violation keys, reduction
# ------------------------------------------------------------------------------------------------

def def_size(defn: dict) -> tuple:
    return (len(defn.get("f", ())) if "lib" not in defn else 99, "dflt" in defn, len(defn.get("hooks", ())),
            defn.get("shape", "flat") != "flat", "first" in defn, json.dumps(defn, sort_keys=True))


def raw_key(defn: dict, v: dict) -> str:
    """Symptom + coarse features: only used to pick the representatives that are then reduced."""
    if "lib" in defn:
        return f"{v['oracle']}:{v['form']}:{v['exc']}:{defn['lib']}"
    return ":".join([v["oracle"], v["form"], v["exc"], str(v["dc_style"]), (defn.get("dflt") or "-").partition(":")[0],
                     ",".join(m for _, m in defn.get("hooks", [])) or "-", "bits" if "bits" in defn["f"] else "-",
                     defn.get("shape", "flat"), str(v["call"] is None), str(defn.get("first"))])


def signature(defn: dict, v: dict) -> str:
    """The minimal distinguishing feature of a *reduced* failing program."""
    if "lib" in defn:
        return f"shipped={defn['lib'].rpartition('.')[2]}" + (f"|first={defn['first']}" if defn.get("first") else "")
    parts = []
    fmts = list(defn["f"])
    if "dflt" in defn:
        fmts = fmts[:-1]     # the format carrying the default says nothing the default's type does not
        parts.append("default=" + defn["dflt"].partition(":")[0])
    if any(x != "H" for x in fmts):      # "H" is what the reducer turns every irrelevant format into
        parts.insert(0, "fmt=" + "+".join(fmts))
    if defn.get("hooks"):
        spec = Spec(defn)
        last = len(spec.names) - 1
        parts.append("hooks=" + ",".join(f"{m}@{'last' if i == last else i}" for i, m in defn["hooks"]))
    if defn.get("shape", "flat") != "flat":
        parts.append("shape=" + defn["shape"])
    if v["form"] == "dataclass" and v["dc_style"] not in (None, "typevar"):
        parts.append("style=" + v["dc_style"])
    if defn.get("first"):
        parts.append("first=" + defn["first"])
    if defn.get("alias"):
        parts.append("via=undecorated-subclass")
    return "|".join(parts) or "fmt=" + "+".join(defn["f"])


def _shrinks(defn: dict) -> list[dict]:
    """One-step simplifications, most drastic first."""
    out = []
    if defn.get("first"):
        out.append({k: v for k, v in defn.items() if k != "first"})
        out += [{**defn, "first": e} for e in defn["first"].split("+") if e != defn["first"]]
        if defn["first"].startswith("parent"):
            out.append({k: v for k, v in {**defn, "first": "decode"}.items() if k != "shape"})
    if defn.get("alias"):
        out.append({k: v for k, v in defn.items() if k != "alias"})
    if defn.get("shape"):
        out.append({k: v for k, v in defn.items() if k != "shape"})
    if defn.get("shape") == "old2":      # a one-field old-style base instead of a two-field one
        hooks = [[j - 1, m] for j, m in defn.get("hooks", []) if j > 0]
        out.append({**{k: v for k, v in defn.items() if k != "hooks"}, "f": defn["f"][1:], "shape": "old1",
                    **({"hooks": hooks} if hooks else {})})
    if defn.get("hooks"):
        out.append({k: v for k, v in defn.items() if k != "hooks"})
        if any("/" in m for _, m in defn["hooks"]):
            out.append({**defn, "hooks": [[j, m.partition("/")[0]] for j, m in defn["hooks"]]})
        if len(defn["hooks"]) > 1:
            out += [{**defn, "hooks": [h]} for h in defn["hooks"]]
    if "dflt" in defn:
        out.append({k: v for k, v in defn.items() if k != "dflt"})
    f = defn["f"]
    names_before = [sum(8 if x == "bits" else 1 for x in f[:i]) for i in range(len(f) + 1)]
    for i in range(len(f)):
        if len(f) == 1 or (i == len(f) - 1 and "dflt" in defn):
            continue
        if defn.get("shape", "").startswith("derived") and len(f) == 2:
            continue
        width = names_before[i + 1] - names_before[i]
        hooks = []
        for j, m in defn.get("hooks", []):
            if names_before[i] <= j < names_before[i + 1]:
                continue
            hooks.append([j - width if j >= names_before[i + 1] else j, m])
        d = {**defn, "f": f[:i] + f[i + 1:]}
        d.pop("hooks", None)
        if hooks:
            d["hooks"] = hooks
        out.append(d)
    # generalise: a field whose format does not matter becomes the plainest one ("H"); the field that carries the
    # default keeps its format, so that the default stays one that real code would write
    for i in range(len(f)):
        if f[i] == "H" or (i == len(f) - 1 and "dflt" in defn):
            continue
        width = names_before[i + 1] - names_before[i]
        hooks = {}
        for j, m in defn.get("hooks", []):
            if names_before[i] <= j < names_before[i + 1]:
                hooks.setdefault(names_before[i], m)
            else:
                hooks.setdefault(j - (width - 1) if j >= names_before[i + 1] else j, m)
        d = {**defn, "f": [*f[:i], "H", *f[i + 1:]]}
        d.pop("hooks", None)
        if hooks:
            d["hooks"] = [[j, m] for j, m in sorted(hooks.items())]
        out.append(d)
    return out


def reduce_violation(defn: dict, v: dict, seed: int, b: dict) -> tuple[dict, dict]:
    """Greedy reduction of the program while the same (oracle, form, dataclass style) keeps failing."""
    if "lib" in defn:
        return defn, v

    def fails(d: dict):  # noqa: ANN202
        try:
            _, vs = evaluate(d, seed, b)
        except Exception:  # noqa: BLE001 - a shrink can be ill-formed (e.g. default no longer fits); just skip it
            return None
        for x in vs:
            if (x["oracle"], x["form"]) == (v["oracle"], v["form"]) and x["dc_style"] in (v["dc_style"], "typevar"):
                return x
        return None

    progress = True
    while progress:
        progress = False
        for cand in _shrinks(defn):
            x = fails(cand)
            if x is not None:
                defn, v, progress = cand, x, True
                break
    return defn, v


def make_violation(defn: dict, v: dict, seed: int, b: dict) -> core.Violation:
    key = f"{v['oracle']}:{v['form']}:{signature(defn, v)}"
    versus = "what the packers of its fields produce" if v["oracle"] == "expected" else "the interpreted definition"
    what = (f"{v['form']} form departs from {versus} at stage '{v['oracle']}': {v['detail']}\n"
            + render(defn, v["dc_style"] or "typevar"))
    return core.Violation(key, what, {"defn": defn, "seed": seed, "bounds": b, "call": v["call"],
                                      "oracle": v["oracle"], "form": v["form"], "dc_style": v["dc_style"]})


# ------------------------------------------------------------------------------------------------
# run / replay
# ------------------------------------------------------------------------------------------------

_CFG: dict = {}
LIB_BOUNDS = {"quick": {"dev": 1, "wide": 0, "trim": 2}, "thorough": {"dev": 2, "wide": 1, "trim": None}}


def _work(chunk: list) -> list:
    st: Counter = Counter()
    reps: dict = {}
    for defn, b in chunk:
        try:
            s, viol = evaluate(defn, _CFG["seed"], b)
        except Exception as e:  # noqa: BLE001
            import traceback
            s, viol = Counter(harness_errors=1), []
            reps.setdefault("harness-error:" + type(e).__name__,
                            (defn, b, {"oracle": "harness-error", "form": "-", "dc_style": None, "call": None,
                                       "detail": f"{defn}\n{traceback.format_exc()[-1500:]}", "exc": type(e).__name__}))
        st.update(s)
        if any(m.endswith("/instance") for _, m in defn.get("hooks", [])):
            # stated exclusion: a rule that exists only on the instance is not part of the class definition that
            # vp_compile (and DataClassPayload on top of it) compiles; executed and counted, never flagged
            st["excluded_instance_rule_programs"] += 1
            for v in viol:
                kind = "loud" if v["oracle"].endswith(("pack", "construct", "unpack", "build")) else "silent"
                st[f"excluded_instance_rule_{kind}_disagreement:{v['oracle']}:{v['form']}"] += 1
            continue
        if viol:
            st["programs_with_violations"] += 1
        for v in viol:
            k = raw_key(defn, v)
            if k not in reps or def_size(defn) < def_size(reps[k][0]):
                reps[k] = (defn, b, v)
    return [(dict(st), reps)]


def _reduce_work(chunk: list) -> list:
    return [(*reduce_violation(d, v, _CFG["seed"], b), b) for d, b, v in chunk]


MAX_REDUCED = 256


def run(ctx: core.Ctx) -> core.Report:
    _CFG.update(seed=ctx.seed)
    for form in ("interp", "compiled", "dataclass"):
        kids_for(form)
    gen, bounds = gen_defs(ctx.tier)
    lib = [(d, LIB_BOUNDS[ctx.tier]) for d in lib_defs()]
    # most expensive programs first, so that the pool does not end on a long tail
    items = sorted(lib + gen, key=lambda x: (-x[1]["dev"], -x[1]["wide"], -len(x[0].get("f", "x" * 9))))
    st: Counter = Counter()
    reps: dict = {}
    for s, r in core.pmap(_work, items, ctx.jobs, chunk=32):
        st.update(s)
        for k, rep in r.items():
            if k not in reps or def_size(rep[0]) < def_size(reps[k][0]):
                reps[k] = rep
    ordered = [reps[k] for k in sorted(reps)]
    errors = [x for x in ordered if x[2]["oracle"] == "harness-error"]
    if errors:
        # a crash of the harness itself is not a verdict about the library
        core.eprint("C20: harness error on " + errors[0][2]["detail"])
        sys.exit(2)
    final: dict = {}
    for d, v, b in core.pmap(_reduce_work, ordered[:MAX_REDUCED], ctx.jobs, chunk=1) if ordered else []:
        viol = make_violation(d, v, ctx.seed, b)
        if viol.key not in final or def_size(d) < def_size(final[viol.key].replay["defn"]):
            final[viol.key] = viol
    violations = [final[k] for k in sorted(final)]

    samples = []
    for d, b in (lib[0], gen[len(gen) // 3], gen[-1]):
        spec = Spec(d)
        call = enum_calls(spec, ctx.seed, b)[0]
        r = run_call(spec, build_plain(spec, kids_for("interp"), compiled=False), kids_for("interp"), call)
        samples.append({"definition": d, "source": render(d), "call": _call_source(call),
                        "reference_bytes": r.get("bytes", b"").hex(), "reference_outcome": sorted(r)})
    own = ("calls", "nontrivial", "programs", "form_executions", "forms_built")
    cov = {
        "evaluations": st["calls"],
        "distinct_nontrivial": st["nontrivial"],
        "rule": "one evaluation = one (program, constructor call) executed on the interpreted form and on every other "
                "form of the program (construct, read attributes, pack, unpack, read attributes). Programs are "
                "distinct by construction and calls are de-duplicated per program, so every evaluation is a distinct "
                "case; it is counted non-trivial when the interpreted reference accepted the call, packed it to at "
                "least one byte and decoded it again (only then are all three comparisons made).",
        "samples": samples,
        "exhaustive": len(ordered) <= MAX_REDUCED,
        "programs": st["programs"],
        "programs_generated": len(gen),
        "programs_shipped_classes": len(lib),
        "form_executions": st["form_executions"],
        "forms_built": st["forms_built"],
        "program_blocks": bounds,
        "shipped_classes_instance_bounds": LIB_BOUNDS[ctx.tier],
        "instance_bounds_legend": "dev: the base instance (alphabet rotated by VERIF_SEED) and every instance that "
                                  "differs from it in <= dev fields over the field's whole alphabet; trim: alphabet "
                                  "values per field used (null = all) plus one value the packer refuses; wide: "
                                  "largest deviation count whose vectors also get the keyword / mixed / "
                                  "default-relying call styles and the extra dataclass annotation styles",
        "statistics": {k: st[k] for k in sorted(st) if k not in own},
        "violating_symptom_classes": len(ordered),
        "explanation": "Differential check of vp_compile'd and dataclass payload definitions against the interpreted "
                       "VariablePayload definition over every program within the stated bounds, plus every shipped "
                       "VariablePayload subclass against an uncompiled twin.",
    }
    return core.Report(LEVEL, cov, violations, [
        "the interpreted VariablePayload form is the reference (no independent wire codec: that is C02's job)",
        "one-directional, as the statement reads: calls the interpreted form itself rejects (malformed argument "
        "lists, unpackable values) put no obligation on the other forms; they are executed and counted only",
        "a definition the @dataclass decorator itself refuses (unhashable default object, 'bits' needing eight names "
        "for one field) has no dataclass form and is counted as inexpressible, not as a violation",
        "a dataclass failure that the compiled form of the same program shows as well (same stage and exception "
        "type, or vp_compile failing outright) is reported once, under the compiled form: DataClassPayload is "
        "built on vp_compile",
        "stated exclusion: fix_pack_ rules that exist only on the instance (set after construction) are honoured by "
        "the interpreted form and ignored by vp_compile/dataclass forms, which compile the class; such programs are "
        "executed and their disagreements counted in statistics (excluded_instance_rule_*), not flagged",
        "a list-valued default is spelled field(default_factory=...) in the dataclass form, the only spelling "
        "dataclasses allow; custom __init__ bodies other than the documented default-forwarding one are out of scope",
        "values are compared together with their Python type (1 and True are different)",
    ])


def replay(ctx: core.Ctx, data: dict) -> list:
    _, viol = evaluate(data["defn"], data["seed"], data["bounds"])
    out = []
    for v in viol:
        if (v["oracle"], v["form"]) == (data["oracle"], data["form"]):
            out.append(make_violation(data["defn"], v, data["seed"], data["bounds"]))
    return out
