"""
C12 - The peer graph's lookups always agree with its membership.

Explicit-state BFS over operation histories of the real ``Network`` (LRU cache sizes lowered so that
they overflow), compared after every transition with a boring reference graph (mc/ref in-line below).
"""
from __future__ import annotations

from collections import OrderedDict

from ipv8.messaging.interfaces.udp.endpoint import UDPv4Address, UDPv6Address
from ipv8.peer import Peer
from ipv8.peerdiscovery.network import Network, PeerObserver

from .. import core, fixtures

LEVEL = "model_checking"

# the IPv6 address is an IPv4-mapped one: its textual form is the one most likely to change across codecs, and the
# snapshot oracle compares decoded addresses with these objects
ADDRS = [UDPv4Address("1.1.1.1", 1001), UDPv4Address("2.2.2.2", 2002), UDPv6Address("::ffff:10.0.0.3", 3003)]
SERVICES = [b"\x01" * 20, b"\x02" * 20]


# ------------------------------------------------------------------------------------------------
# reference model: plain dicts and sets, written from the property statement
# ------------------------------------------------------------------------------------------------

class RefGraph:
    def __init__(self, bl_addrs, bl_peers) -> None:  # noqa: ANN001
        self.verified: dict[int, dict] = {}       # peer -> {address class name: address index}
        self.known: dict[int, tuple] = {}         # address -> (introducer peer or None, service or None, new_style)
        self.services: dict[int, set] = {}        # peer -> advertised services
        self.bl_addrs = set(bl_addrs)
        self.bl_peers = set(bl_peers)

    @staticmethod
    def cls(a: int) -> str:
        return type(ADDRS[a]).__name__

    def add_verified(self, p: int, addrs: dict) -> None:
        if p in self.bl_peers:
            return
        if p in self.verified:
            self.verified[p].update(addrs)
            return
        if any(a in self.known for a in addrs.values()):
            self.verified[p] = dict(addrs)
        elif all(a not in self.bl_addrs for a in addrs.values()):
            for a in addrs.values():
                self.known.setdefault(a, (None, None, False))
            self.verified[p] = dict(addrs)

    def discover_address(self, p: int, paddrs: dict, a: int, s, new_style: bool) -> None:  # noqa: ANN001
        if a not in self.bl_addrs and (a not in self.known or self.known[a][0] not in self.verified):
            self.known[a] = (p, s, new_style)
        self.add_verified(p, paddrs)

    def discover_services(self, p: int, ss) -> None:  # noqa: ANN001
        self.services.setdefault(p, set()).update(ss)

    def remove_peer(self, p: int, addrs: dict) -> None:
        for a in addrs.values():
            self.known.pop(a, None)
        self.verified.pop(p, None)
        self.services.pop(p, None)

    def remove_by_address(self, a: int) -> None:
        self.known.pop(a, None)
        for p in [p for p, ad in self.verified.items() if a in ad.values()]:
            del self.verified[p]
            self.services.pop(p, None)

    def load(self, addrs) -> None:  # noqa: ANN001
        for a in addrs:
            self.known[a] = (None, None, False)

    # queries
    def by_key(self, p: int):  # noqa: ANN201
        return p if p in self.verified else None

    def by_address(self, a: int) -> set:
        return {p for p, ad in self.verified.items() if a in ad.values()}

    def for_service(self, s: int) -> set:
        return {p for p in self.verified if s in self.services.get(p, ())}

    def walkable(self, s=None, old_style: bool = False) -> set:  # noqa: ANN001
        if s is None:
            members = set(self.verified)
        else:
            members = self.for_service(s)
        taken = {a for p in members for a in self.verified[p].values()}
        out = set(self.known) - taken
        if s is not None:
            keep = set()
            for a in out:
                intro, via, new_style = self.known[a]
                if old_style and new_style:
                    continue
                have = set(self.services.get(intro, ()))
                if via is not None:
                    have.add(via)
                if s in have:
                    keep.add(a)
            out = keep
        return out


# ------------------------------------------------------------------------------------------------
# the explored world
# ------------------------------------------------------------------------------------------------

class ObserverError(Exception):
    """What a misbehaving application observer raises."""


class Observer(PeerObserver):
    """
    An application's peer observer (Network.peer_observers), one of the configured kinds:
      quiet    does nothing
      raise    raises from on_peer_added and on_peer_removed (a buggy application callback; the caller of the operation
               sees the error)
      reenter  on removal of peer p verifies peer p+1 at its home address from inside the callback, and asks the graph
               for the removed peer by key
    """

    def __init__(self, model: "Model", net: Network, mode: str) -> None:
        self.model, self.net, self.mode = model, net, mode
        self.reentered: list[int] = []
        self.saw_removed_by_key: list[int] = []

    def on_peer_added(self, peer) -> None:  # noqa: ANN001
        if self.mode == "raise":
            raise ObserverError(self.model.pidx(peer))

    def on_peer_removed(self, peer) -> None:  # noqa: ANN001
        m = self.model
        p = m.pidx(peer)
        if self.mode == "raise":
            raise ObserverError(p)
        if self.mode == "reenter":
            if self.net.get_verified_by_public_key_bin(m.keys[p]) is peer:    # (a re-verified twin is another instance)
                self.saw_removed_by_key.append(p)
            q = (p + 1) % m.n_peers
            if q != p:
                self.reentered.append(q)
                self.net.add_verified_peer(m.mkpeer(q, m.home(q)))


class World:
    def __init__(self, m: "Model") -> None:
        self.net = Network()
        self.obs = None
        if m.observer is not None:
            self.obs = Observer(m, self.net, m.observer)
            self.net.peer_observers.add(self.obs)
        self.net.reverse_ip_cache_size = 2
        self.net.reverse_intro_cache_size = 2
        self.net.reverse_service_cache_size = 1
        self.net.blacklist.extend(ADDRS[a] for a in m.bl_addrs)
        self.net.blacklist_mids.extend(Peer(m.keys[p]).mid for p in m.bl_peers)
        self.ref = RefGraph(m.bl_addrs, m.bl_peers)
        self.pending_ref = None
        self.kept_sets: dict = {}


class Model(core.BfsModel):
    def __init__(self, n_peers: int, n_addrs: int, n_services: int, seed: int, bl_addrs=(), bl_peers=(),  # noqa: ANN001
                 observer: str | None = None, forms: bool = False) -> None:
        self.n_peers, self.n_addrs, self.n_services, self.seed = n_peers, n_addrs, n_services, seed
        self.observer = observer
        self.forms = forms
        self.bl_addrs, self.bl_peers = tuple(bl_addrs), tuple(bl_peers)
        self.keys = [fixtures.public_bin(i) for i in fixtures.rotate(seed, n_peers)]
        self.key_index = {k: i for i, k in enumerate(self.keys)}
        P, A, S = range(n_peers), range(n_addrs), range(n_services)
        al: list = []
        al += [("add", p, a) for p in P for a in A]
        if n_addrs >= 3:
            # a dual-stack peer: one IPv4 address plus the IPv6 address (ADDRS[2]) in one Peer object
            al += [("add2", p, a) for p in P for a in (0, 1)]
        al += [("disc", p, a, s) for p in P for a in A for s in [None, *S]]
        al += [("svc", p, s) for p in P for s in S]
        if forms:
            # the argument of discover_services is an Iterable: also a one-shot generator, and a set object that the
            # application keeps and passes again for other peers (one such set per service in this world)
            al += [("svc", p, s, form) for p in P for s in S for form in ("generator", "kept-set")]
        al += [("rm", p) for p in P]
        al += [("rma", a) for a in A]
        al += [("q_addr", a) for a in A]
        al += [("q_svc", s) for s in S]
        al += [("q_walk", s) for s in [None, *S]]
        al += [("q_intro", p) for p in P]
        al += [("load", 0), ("q_snap", 0)]
        self.alphabet = al

    def params(self) -> dict:
        return {"peers": self.n_peers, "addresses": self.n_addrs, "services": self.n_services, "seed": self.seed,
                "blacklisted_addresses": list(self.bl_addrs), "blacklisted_peers": list(self.bl_peers),
                "observer": self.observer, "forms": self.forms}

    # helpers --------------------------------------------------------------------------------
    def home(self, p: int) -> int:
        return p % self.n_addrs

    def mkpeer(self, p: int, a: int) -> Peer:
        return Peer(self.keys[p], ADDRS[a])

    def pidx(self, peer) -> int:  # noqa: ANN001
        return self.key_index[peer.public_key.key_to_bin()]

    @staticmethod
    def aidx(addr) -> int:  # noqa: ANN001
        return ADDRS.index(addr)

    def initial(self) -> World:
        return World(self)

    def apply(self, w: World, ev):  # noqa: ANN001, ANN201
        if w.obs is None:
            return self._apply(w, ev)
        # with an application observer: the caller survives the observer's error; what the observer did from inside its
        # callback (verify another peer) is applied to the reference after the operation that triggered it
        del w.obs.reentered[:]
        del w.obs.saw_removed_by_key[:]
        w.pending_ref = None
        try:
            out = self._apply(w, ev)
        except ObserverError:
            out = None
            if w.pending_ref is not None:       # the reference applies the operation in full
                w.pending_ref()
        for q in w.obs.reentered:
            h = self.home(q)
            w.ref.add_verified(q, {w.ref.cls(h): h})
        return out

    def _apply(self, w: World, ev):  # noqa: ANN001, ANN201
        net, ref = w.net, w.ref
        kind = ev[0]
        if kind == "add":
            _, p, a = ev
            w.pending_ref = lambda: ref.add_verified(p, {ref.cls(a): a})
            net.add_verified_peer(self.mkpeer(p, a))
            w.pending_ref = None
            ref.add_verified(p, {ref.cls(a): a})
        elif kind == "add2":
            _, p, a = ev
            peer = self.mkpeer(p, a)
            peer.add_address(ADDRS[2])
            w.pending_ref = lambda: ref.add_verified(p, {ref.cls(a): a, ref.cls(2): 2})
            net.add_verified_peer(peer)
            w.pending_ref = None
            ref.add_verified(p, {ref.cls(a): a, ref.cls(2): 2})
        elif kind == "disc":
            _, p, a, s = ev
            h = self.home(p)
            w.pending_ref = lambda: ref.discover_address(p, {ref.cls(h): h}, a, s, bool(a % 2))
            net.discover_address(self.mkpeer(p, h), ADDRS[a], None if s is None else SERVICES[s], new_style=bool(a % 2))
            w.pending_ref = None
            ref.discover_address(p, {ref.cls(h): h}, a, s, bool(a % 2))
        elif kind == "svc":
            p, s = ev[1], ev[2]
            form = ev[3] if len(ev) > 3 else "list"
            if form == "generator":
                arg = (x for x in [SERVICES[s]])
            elif form == "kept-set":
                arg = w.kept_sets.setdefault(s, {SERVICES[s]})
            else:
                arg = [SERVICES[s]]
            net.discover_services(self.mkpeer(p, self.home(p)), arg)
            ref.discover_services(p, [s])
        elif kind == "rm":
            _, p = ev
            # the library removes the instance it got from get_peers(); fall back to a fresh one
            inst = next((x for x in net.verified_peers if self.pidx(x) == p), None) or self.mkpeer(p, self.home(p))
            addrs = {type(v).__name__: self.aidx(v) for v in inst.addresses.values()}
            w.pending_ref = lambda: ref.remove_peer(p, addrs)
            net.remove_peer(inst)
            w.pending_ref = None
            ref.remove_peer(p, addrs)
        elif kind == "rma":
            w.pending_ref = lambda: ref.remove_by_address(ev[1])
            net.remove_by_address(ADDRS[ev[1]])
            w.pending_ref = None
            ref.remove_by_address(ev[1])
        elif kind == "q_addr":
            r = net.get_verified_by_address(ADDRS[ev[1]])
            return None if r is None else self.pidx(r)
        elif kind == "q_svc":
            return sorted(self.pidx(x) for x in net.get_peers_for_service(SERVICES[ev[1]]))
        elif kind == "q_walk":
            s = ev[1]
            return sorted(self.aidx(x) for x in net.get_walkable_addresses(None if s is None else SERVICES[s]))
        elif kind == "q_intro":
            return sorted(self.aidx(x) for x in net.get_introductions_from(self.mkpeer(ev[1], self.home(ev[1]))))
        elif kind == "q_snap":
            # taking a snapshot reads every verified peer's preferred address (Peer.address caches it)
            return len(net.snapshot())
        elif kind == "load":
            snap = Network()
            snap.add_verified_peer(Peer(fixtures.public_bin(11), ADDRS[0]))
            net.load_snapshot(snap.snapshot())
            ref.load([0])
        return None

    # digest ---------------------------------------------------------------------------------
    def _peer_sig(self, peer) -> tuple:  # noqa: ANN001
        # includes the cached preferred address and its dirty flag: Peer.address is derived state that snapshot() reads
        cached = getattr(peer, "_address", None)
        return (self.pidx(peer), tuple(sorted((k.__name__, self.aidx(v)) for k, v in peer.addresses.items())),
                getattr(peer.addresses, "dirty", None), None if cached is None else self.aidx(cached))

    def digest(self, w: World):  # noqa: ANN201
        net = w.net
        vp = {self.pidx(x): x for x in net.verified_peers}
        svc = lambda s: SERVICES.index(s)  # noqa: E731
        return (
            tuple(self._peer_sig(x) for x in net.verified_peers),  # iteration order: lookups by address depend on it
            tuple(sorted((self.key_index[k], self._peer_sig(v), vp.get(self.key_index[k]) is v)
                         for k, v in net.verified_by_public_key_bin.items())),
            tuple((self.aidx(a), self.key_index.get(v.introduced_by, -1),
                   None if v.services is None else svc(v.services), v.new_style)
                  for a, v in net._all_addresses.items()),
            tuple(sorted((self.key_index[k], tuple(sorted(svc(s) for s in v)),
                          next((i for i, ks in w.kept_sets.items() if ks is v), None))    # stored set IS the caller's set
                         for k, v in net.services_per_peer.items())),
            tuple(sorted((i, tuple(sorted(svc(s) for s in ks))) for i, ks in w.kept_sets.items())),
            tuple((self.aidx(a), self._peer_sig(x), vp.get(self.pidx(x)) is x)
                  for a, x in net.reverse_ip_lookup.items()),
            tuple((self._peer_sig(x), tuple(self.aidx(a) for a in lst)) for x, lst in net.reverse_intro_lookup.items()),
            tuple((svc(s), tuple((self._peer_sig(x), vp.get(self.pidx(x)) is x) for x in lst))
                  for s, lst in net.reverse_service_lookup.items()),
            # reference-model state: two histories merge only if the reference agrees as well
            tuple(sorted((p, tuple(sorted(a.items()))) for p, a in w.ref.verified.items())),
            tuple(sorted(w.ref.known.items(), key=repr)),
            tuple(sorted((p, tuple(sorted(s))) for p, s in w.ref.services.items())),
        )

    # oracle ---------------------------------------------------------------------------------
    def _ask_all(self, net: Network) -> dict:
        out = {}
        for p in range(self.n_peers):
            r = net.get_verified_by_public_key_bin(self.keys[p])
            out[("by_key", p)] = None if r is None else self.pidx(r)
        for a in range(self.n_addrs):
            r = net.get_verified_by_address(ADDRS[a])
            out[("by_address", a)] = None if r is None else self.pidx(r)
        for s in range(self.n_services):
            out[("for_service", s)] = frozenset(self.pidx(x) for x in net.get_peers_for_service(SERVICES[s]))
        for s in [None, *range(self.n_services)]:
            for old in ([False] if s is None else [False, True]):
                out[("walkable", s, old)] = frozenset(
                    self.aidx(x) for x in net.get_walkable_addresses(None if s is None else SERVICES[s], old))
        out[("members",)] = frozenset(self.pidx(x) for x in net.verified_peers)
        return out

    def check(self, w: World, hist, ev, obs) -> list:  # noqa: ANN001
        net, ref = w.net, w.ref
        last = ev[0]
        prev = next((h[0] for h in reversed(hist) if not h[0].startswith("q_")), "start")
        v: list = []

        def bad(q: str, got, want) -> None:  # noqa: ANN001
            v.append((f"{q}|after:{last}|prev-op:{prev}", f"{q}: implementation says {got!r}, membership implies {want!r}"
                      f" after {ev!r}"))

        # the answer of a query issued as an event
        if last == "q_addr":
            want = ref.by_address(ev[1])
            if (obs is None) != (not want) or (obs is not None and obs not in want):
                bad("by_address", obs, sorted(want))
        elif last == "q_svc" and set(obs) != ref.for_service(ev[1]):
            bad("for_service", obs, sorted(ref.for_service(ev[1])))
        elif last == "q_walk" and set(obs) != ref.walkable(ev[1]):
            bad("walkable" + ("" if ev[1] is None else "(service)"), obs, sorted(ref.walkable(ev[1])))

        if w.obs is not None and w.obs.saw_removed_by_key:
            v.append((f"removed-peer-still-found-by-key-in-callback|after:{last}",
                      f"on_peer_removed for peers {w.obs.saw_removed_by_key}: lookup by key still returned the peer"))
        first = self._ask_all(net)
        # membership itself
        if first[("members",)] != frozenset(ref.verified):
            bad("membership", sorted(first[("members",)]), sorted(ref.verified))
        for p in range(self.n_peers):
            if p in ref.bl_peers and p in first[("members",)]:
                v.append((f"blacklisted-mid-verified|after:{last}", f"blacklisted peer {p} became verified after {ev!r}"))
        for k, got in first.items():
            if k[0] == "by_key":
                if got != ref.by_key(k[1]):
                    bad("by_key", got, ref.by_key(k[1]))
            elif k[0] == "by_address":
                want = ref.by_address(k[1])
                if (got is None) != (not want) or (got is not None and got not in want):
                    bad("by_address", got, sorted(want))
            elif k[0] == "for_service":
                if got != ref.for_service(k[1]):
                    bad("for_service", sorted(got), sorted(ref.for_service(k[1])))
            elif k[0] == "walkable":
                want = ref.walkable(k[1], k[2])
                if got != want:
                    bad("walkable" + ("" if k[1] is None else "(service)"), sorted(got), sorted(want))
        # every lookup must hand out the very Peer instance that is in the verified set (a stale twin of the same
        # key carries old addresses: callers would walk to, or exclude, the wrong addresses)
        live = list(net.verified_peers)
        for p in range(self.n_peers):
            r = net.get_verified_by_public_key_bin(self.keys[p])
            if r is not None and not any(r is x for x in live):
                bad("by_key-instance", "a Peer object that is not the verified one", "the verified instance")
        for a in range(self.n_addrs):
            r = net.get_verified_by_address(ADDRS[a])
            if r is not None and not any(r is x for x in live):
                bad("by_address-instance", "a Peer object that is not the verified one", "the verified instance")
        for sv in range(self.n_services):
            for r in net.get_peers_for_service(SERVICES[sv]):
                if not any(r is x for x in live):
                    bad("for_service-instance", "a Peer object that is not the verified one", "the verified instance")
        # asking never changes the answer
        second = self._ask_all(net)
        for k in first:
            a, b = first[k], second[k]
            if k[0] == "by_address":
                if (a is None) != (b is None):
                    v.append((f"asking-changes-answer:{k[0]}|after:{last}", f"{k}: first {a!r}, then {b!r}"))
            elif a != b:
                v.append((f"asking-changes-answer:{k[0]}|after:{last}", f"{k}: first {a!r}, then {b!r}"))
        # snapshot -> fresh graph -> exactly the verified peers' (preferred) addresses are walkable
        fresh = Network()
        fresh.load_snapshot(net.snapshot())
        # the preferred address per peer, computed from the reference (IPv6 before IPv4: Peer.INTERFACE_ORDER), not
        # from Peer.address - a stale preferred address in the implementation must show up here
        want_snap = set()
        for p_, ad in ref.verified.items():
            pref = ad.get("UDPv6Address", ad.get("UDPv4Address"))
            if pref is not None:
                want_snap.add(ADDRS[pref])
        got_snap = set(fresh.get_walkable_addresses())
        if got_snap != want_snap:
            v.append((f"snapshot|after:{last}", f"snapshot reload walkable {sorted(got_snap)} != {sorted(want_snap)}"))
        return v


def configs(ctx: core.Ctx) -> list[tuple[Model, int]]:
    if ctx.thorough:
        return [
            (Model(3, 3, 2, ctx.seed), 4),
            (Model(3, 2, 1, ctx.seed), 5),
            (Model(2, 2, 1, ctx.seed), 6),
            (Model(2, 2, 1, ctx.seed, bl_addrs=(0,)), 5),
            (Model(2, 2, 1, ctx.seed, bl_peers=(0,)), 5),
            (Model(3, 3, 1, ctx.seed, bl_addrs=(2,), bl_peers=(1,)), 4),
            (Model(2, 3, 1, ctx.seed, bl_addrs=(0,)), 5),
            (Model(2, 2, 1, ctx.seed, observer="raise"), 5),
            (Model(3, 2, 1, ctx.seed, observer="raise"), 4),
            (Model(2, 2, 1, ctx.seed, observer="reenter"), 5),
            (Model(3, 2, 1, ctx.seed, observer="reenter"), 4),
            (Model(2, 2, 1, ctx.seed, observer="quiet"), 4),
            (Model(2, 2, 2, ctx.seed, forms=True), 5),
        ]
    return [
        (Model(2, 2, 1, ctx.seed), 5),
        (Model(3, 3, 2, ctx.seed), 3),
        (Model(2, 2, 1, ctx.seed, bl_addrs=(0,), bl_peers=(1,)), 4),
        (Model(2, 3, 1, ctx.seed, bl_addrs=(0,)), 3),
        (Model(2, 2, 1, ctx.seed, observer="raise"), 4),
        (Model(2, 2, 1, ctx.seed, observer="reenter"), 4),
        (Model(3, 2, 1, ctx.seed, observer="reenter"), 3),
        (Model(2, 2, 2, ctx.seed, forms=True), 4),
    ]


# ------------------------------------------------------------------------------------------------
# the graph's users: overlays of one identity sharing one Network (what ipv8_service builds)
# ------------------------------------------------------------------------------------------------

OVERLAY_EVENTS = ["load A", "load B", "unload A", "unload B", "self A", "self B", "walk A", "walk B"]


def overlay_history(seed: int, hist: tuple) -> list:
    """
    Two overlays (different community ids) of one identity on one node share the node's Network, as every deployment's
    overlays do; a second node F is an ordinary peer.  Events: load / unload an overlay, "self X" = a datagram signed with
    our own key reaches overlay X (X walks to its own address), "walk X" = F walks to X.  After every event: our own
    identity - blacklisted by every Community for as long as one is loaded - is a verified peer in no lookup.
    """
    from ipv8.community import Community, CommunitySettings  # noqa: PLC0415

    from .. import simnet  # noqa: PLC0415

    class OA(Community):
        community_id = b"c12-shared-network-A"

    class OB(Community):
        community_id = b"c12-shared-network-B"

    w = simnet.World(("c12-overlays", seed, hist))
    viol = []
    try:
        ks = fixtures.rotate(seed, 2)
        node, friend = w.add_node("N", ks[0]), w.add_node("F", ks[1])
        fo = {"A": friend.add_overlay(OA), "B": friend.add_overlay(OB)}
        mine: dict = {"A": None, "B": None}
        own = node.my_peer
        for k, ev in enumerate(hist):
            op, which = OVERLAY_EVENTS[ev].split()
            cls = OA if which == "A" else OB
            if op == "load" and mine[which] is None:
                mine[which] = node.add_overlay(cls)
            elif op == "unload" and mine[which] is not None:
                o, mine[which] = mine[which], None
                w.drive(node.run(o.unload))
                if o in node.overlays:
                    node.overlays.remove(o)
            elif op == "self" and mine[which] is not None:
                node.run(mine[which].walk_to, node.address)
            elif op == "walk":
                friend.run(fo[which].walk_to, node.address)
            w.flush()
            if not any(mine.values()):
                continue
            net = node.network
            key_bin = own.public_key.key_to_bin()
            found = []
            if any(p.public_key.key_to_bin() == key_bin for p in net.verified_peers):
                found.append("verified_peers")
            if net.get_verified_by_public_key_bin(key_bin) is not None:
                found.append("get_verified_by_public_key_bin")
            by_addr = net.get_verified_by_address(node.address)
            if by_addr is not None and by_addr.public_key.key_to_bin() == key_bin:
                found.append("get_verified_by_address")
            for name, o in mine.items():
                if o is not None and any(p.public_key.key_to_bin() == key_bin for p in o.get_peers()):
                    found.append(f"get_peers of overlay {name}")
            if found:
                viol.append(("own-identity-verified|shared-network",
                             f"overlays of one identity on one Network, history {[OVERLAY_EVENTS[e] for e in hist[:k + 1]]}: "
                             f"our own (blacklisted) identity is a verified peer according to {found}"))
                break
        return viol
    finally:
        w.close()


SNAPSHOT_FORMS = [UDPv4Address("1.2.3.4", 5), UDPv4Address("255.255.255.255", 65535), UDPv6Address("2001:db8::1", 6),
                  UDPv6Address("::ffff:10.0.0.3", 7), UDPv6Address("::1", 1), UDPv6Address("fe80::1%eth0", 8090),
                  UDPv6Address("fe80::abcd%2", 9), UDPv6Address("fe80::1%wlp0s20f3", 8090)]


def snapshot_forms(seed: int) -> tuple[list, int]:
    """
    "A snapshot of the verified peers' addresses, loaded into a fresh graph, makes exactly those addresses walkable" for
    every legal spelling class of an address a peer can have: IPv4, IPv6, IPv4-mapped IPv6, loopback, and IPv6
    link-local addresses with a zone id (what a LAN peer is reached on).  One and two verified peers per graph.
    """
    import itertools  # noqa: PLC0415
    viol, n = [], 0
    keys = [fixtures.public_bin(i) for i in fixtures.rotate(seed, 2)]
    for combo in [*[(a,) for a in SNAPSHOT_FORMS], *itertools.combinations(SNAPSHOT_FORMS, 2)]:
        net = Network()
        for key, addr in zip(keys, combo):
            net.add_verified_peer(Peer(key, addr))
        fresh = Network()
        n += 1
        try:
            fresh.load_snapshot(net.snapshot())
            got = {tuple(a) for a in fresh.get_walkable_addresses()}
        except Exception as e:  # noqa: BLE001
            viol.append((f"snapshot-forms:exception:{type(e).__name__}", f"snapshot / load_snapshot of verified peers at "
                                                                         f"{list(combo)} raised {e!r}"))
            continue
        want = {tuple(a) for a in combo}
        if got != want:
            viol.append(("snapshot-forms:walkable-differs",
                         f"verified peers at {[tuple(a) for a in combo]}: the snapshot loaded into a fresh graph makes "
                         f"{sorted(got)} walkable"))
    seen, out = set(), []
    for k, what in viol:
        if k not in seen:
            seen.add(k)
            out.append((k, what))
    return out, n


def _overlay_work(chunk: list) -> list:
    return [(h, overlay_history(_OV_SEED, tuple(h))) for h in chunk]


_OV_SEED = 0


def overlay_histories(depth: int) -> list:
    import itertools  # noqa: PLC0415
    out = []
    for n in range(1, depth + 1):
        for h in itertools.product(range(len(OVERLAY_EVENTS)), repeat=n):
            # canonical: starts with a load, and no event that is a no-op by construction
            loaded = {"A": False, "B": False}
            ok = True
            for e in h:
                op, which = OVERLAY_EVENTS[e].split()
                if op == "load":
                    ok &= not loaded[which]
                    loaded[which] = True
                elif op == "unload":
                    ok &= loaded[which]
                    loaded[which] = False
                elif op == "self":
                    ok &= loaded[which]
                else:
                    ok &= loaded[which]
            if ok and OVERLAY_EVENTS[h[-1]].split()[0] in ("self", "walk"):
                out.append(h)
    return out


def run(ctx: core.Ctx) -> core.Report:
    total_states = total_trans = 0
    runs, violations, samples = [], [], []
    exhaustive = True
    outcomes = 0
    for model, depth in configs(ctx):
        r = core.bfs(model, depth, ctx.jobs, chunk=16)
        total_states += r["states"]
        total_trans += r["transitions"]
        outcomes += r["distinct_outcomes"]
        exhaustive &= not r["capped"]
        runs.append({"world": model.params(), "alphabet_size": len(model.alphabet), "depth": r["completed_depth"],
                     "states": r["states"], "transitions": r["transitions"], "levels": r["levels"],
                     "distinct_query_outcomes": r["distinct_outcomes"]})
        samples.extend(r["samples"][:1])
        for v in r["violations"]:
            v.replay = {"world": model.params(), "history": v.replay["history"]}
            violations.append(v)
    global _OV_SEED
    _OV_SEED = ctx.seed
    hists = overlay_histories(6 if ctx.thorough else 5)
    for h, v in sorted(core.pmap(_overlay_work, hists, ctx.jobs, chunk=16), key=lambda r: (len(r[0]), r[0])):
        total_trans += len(h)
        for key, what in v:
            if not any(x.key == key for x in violations):
                violations.append(core.Violation(key, what, {"overlay_history": list(h), "seed": ctx.seed}))
    runs.append({"world": "two overlays of one identity sharing a Network", "alphabet_size": len(OVERLAY_EVENTS),
                 "histories": len(hists)})
    found, n_forms = snapshot_forms(ctx.seed)
    total_trans += n_forms
    for key, what in found:
        violations.append(core.Violation(key, what, {"snapshot_forms": True, "seed": ctx.seed}))
    runs.append({"world": "snapshot round trip per address spelling class", "graphs": n_forms})
    cov = {
        "states": total_states, "transitions": total_trans, "traces_validated_against_impl": total_trans,
        "samples": samples, "exhaustive": exhaustive, "distinct_outcomes": outcomes, "runs": runs,
        "explanation": "BFS over operation histories of the real ipv8 Network (LRU sizes 2/2/1); every transition is "
                       "executed on the implementation and compared with a dict/set reference graph; all lookups "
                       "asked twice; snapshot reloaded into a fresh graph in every state.",
    }
    return core.Report(LEVEL, cov, violations,
                       ["Network is only driven through its public methods; removal is given the stored Peer instance "
                        "(as callers obtain it from get_peers)",
                        "get_introductions_from is exercised (it mutates an LRU) but not compared: the statement "
                        "does not list it"])


def replay(ctx: core.Ctx, data: dict) -> list:
    if data.get("snapshot_forms"):
        return [core.Violation(k, what) for k, what in snapshot_forms(data["seed"])[0]]
    if "overlay_history" in data:
        return [core.Violation(k, what) for k, what in overlay_history(data["seed"], tuple(data["overlay_history"]))]
    w = data["world"]
    m = Model(w["peers"], w["addresses"], w["services"], w["seed"], w["blacklisted_addresses"], w["blacklisted_peers"],
              w.get("observer"), w.get("forms", False))
    hist = [tuple(e) for e in data["history"]]
    world = m.initial()
    out = []
    for i, ev in enumerate(hist):
        obs = m.apply(world, ev)
        if i == len(hist) - 1:
            out = [core.Violation(k, what) for k, what in m.check(world, hist[:i], ev, obs)]
    return out
