"""
C15 - DHT values are stored only for authorised writers and read back authentic.

Four bounded-exhaustive parts, all on the real code, all compared with mc/ref/c15_dhtstore.py:

 (1) "storage":   explicit-state BFS over put / advance-time / clean histories of the real ``ipv8.dht.storage.Storage``
                  on the virtual clock (per-put lifetimes, versions, content-addressed and signer-addressed slots,
                  a signer whose id equals the key).  Reference: dict keyed by (key, signer).
 (2) "community": explicit-state BFS over request histories against one real ``DHTCommunity`` storage node S on SimNet
                  (writer A, second identity M, "A's key from M's address", reader R): token fetches, crafted
                  store-requests (token x requester x value alphabets), token rotation by time, value maintenance.
                  After every transition S's storage is compared with the reference and R runs ``find_values``.
 (3) "reader":    every pair of (honest responder contents, malicious responder contents) up to a list length; the
                  real reader's ``find_values`` report is compared with what actually reached it on the wire.
 (4) "store-peer": every single store-peer-request (requester x token x target mid x 0-2 rotations) against a real
                  ``DHTDiscoveryCommunity``: registered only with a valid token and only under the requester's mid.
"""
from __future__ import annotations

import hashlib
import itertools
import struct
import time

from ipv8.dht.community import DHTCommunity
from ipv8.dht.discovery import DHTDiscoveryCommunity
from ipv8.dht.payload import (
    FindRequestPayload,
    FindResponsePayload,
    SignedStrPayload,
    StorePeerRequestPayload,
    StoreRequestPayload,
)
from ipv8.dht.storage import Storage
from ipv8.messaging.interfaces.udp.endpoint import UDPv4Address, UDPv6Address
from ipv8.messaging.payload_headers import BinMemberAuthenticationPayload
from ipv8.peer import Peer

from .. import core, fixtures, seams, simnet
from ..ref import c15_dhtstore as ref

LEVEL = "model_checking"


def now() -> float:
    return time.time()     # the virtual clock (mc.seams)


# =====================================================================================================================
# part 1: Storage
# =====================================================================================================================

SKEYS = [hashlib.sha1(b"c15-storage-key-%d" % i).digest() for i in range(2)]
SIGNER = hashlib.sha1(b"c15-signer").digest()


class StorageWorld:
    def __init__(self) -> None:
        self.storage = Storage()
        self.ref = ref.RefStore()
        self.found: list = []


class StorageModel(core.BfsModel):
    """
    Events: ("put", key, who, version, lifetime index) / ("adv", seconds) / ("clean",)
      who: "u0","u1" unsigned (Storage derives the id from the content), "s" a signer, "s'" the same signer with
           different data (only at version 1), "own" a signer whose id equals the key (the DHT sorts these last).
    """

    def __init__(self, n_keys: int, versions: tuple, lifetimes: tuple, steps: tuple, seed: int = 0,
                 unsigned: tuple = ("u0", "u1"), alt: bool = True) -> None:
        self.n_keys, self.versions, self.lifetimes, self.steps, self.seed = n_keys, tuple(versions), tuple(lifetimes), \
            tuple(steps), seed
        self.unsigned, self.alt = tuple(unsigned), alt
        al: list = []
        for k in range(n_keys):
            for m in range(len(lifetimes)):
                al += [("put", k, u, 0, m) for u in self.unsigned]
                for who in ("s", "own"):
                    al += [("put", k, who, v, m) for v in self.versions]
                if alt and 1 in self.versions:
                    al.append(("put", k, "s'", 1, m))
        al += [("adv", dt) for dt in steps]
        al.append(("clean",))
        self.alphabet = al

    def params(self) -> dict:
        return {"part": "storage", "keys": self.n_keys, "versions": list(self.versions),
                "lifetimes": list(self.lifetimes), "steps": list(self.steps), "seed": self.seed,
                "unsigned": list(self.unsigned), "alt": self.alt}

    @staticmethod
    def from_params(p: dict) -> "StorageModel":
        return StorageModel(p["keys"], tuple(p["versions"]), tuple(p["lifetimes"]), tuple(p["steps"]), p["seed"],
                            tuple(p["unsigned"]), p["alt"])

    def initial(self) -> StorageWorld:
        return StorageWorld()

    # -- the put arguments --------------------------------------------------------------------------------------
    @staticmethod
    def data_of(who: str, version: int) -> bytes:
        if who in ("u0", "u1"):
            return who.encode()
        if who == "s'":
            return b"s/v1/alt"
        return f"{who}/v{version}".encode()

    @staticmethod
    def slot_of(k: int, data: bytes) -> tuple:
        """Reference slot of a stored datum: the signer for signed data, the content for unsigned data."""
        label = data.decode().split("/")[0]
        return (k, label)

    @staticmethod
    def id_of(k: int, who: str):  # noqa: ANN205
        if who in ("u0", "u1"):
            return None
        return SKEYS[k] if who == "own" else SIGNER

    # -- implementation snapshot --------------------------------------------------------------------------------
    def snapshot(self, w: StorageWorld) -> tuple[dict, list]:
        entries: dict = {}
        problems = []
        for k in range(self.n_keys):
            for v in w.storage.items.get(SKEYS[k], []):
                slot = self.slot_of(k, v.data)
                if slot in entries:
                    problems.append(("storage:duplicate-slot", f"two entries for slot {slot}"))
                entries[slot] = ref.Entry(v.data, v.version, v.last_update, v.max_age)
        return entries, problems

    def listing(self, w: StorageWorld) -> str:
        t = now()
        return "; ".join(f"key{k}: [" + ", ".join(f"{v.data.decode()} age={t - v.last_update:g}/{v.max_age:g}"
                                                    for v in w.storage.items.get(SKEYS[k], [])) + "]"
                         for k in range(self.n_keys))

    # -- transitions ---------------------------------------------------------------------------------------------
    def apply(self, w: StorageWorld, ev):  # noqa: ANN001, ANN201
        w.found = []
        kind = ev[0]
        if kind == "adv":
            seams.CLOCK.advance(ev[1])
        elif kind == "put":
            _, k, who, version, m = ev
            data = self.data_of(who, version)
            slot = self.slot_of(k, data)
            allowed = w.ref.put_outcomes(k, slot[1], data, version, self.lifetimes[m], now())
            old = w.ref.entries.get(slot)
            w.storage.put(SKEYS[k], data, id_=self.id_of(k, who), max_age=self.lifetimes[m], version=version)
            entries, problems = self.snapshot(w)
            w.found += problems
            actual = entries.get(slot)
            if actual not in allowed:
                if actual is None:
                    cls = "put:value-not-stored"
                elif old is not None and version < old.version and actual.version == version:
                    cls = "put:older-version-replaces-newer"
                elif old is not None and version > old.version and actual == old:
                    cls = "put:newer-version-ignored"
                else:
                    cls = "put:unexpected-slot-content"
                w.found.append((f"storage:{cls}", f"{ev}: slot {slot} holds {actual}, allowed {allowed}; "
                                                  f"storage now {self.listing(w)}"))
            for s in set(entries) | set(w.ref.entries):
                if s != slot and entries.get(s) != w.ref.entries.get(s):
                    w.found.append(("storage:put-disturbs-other-entry",
                                    f"{ev}: slot {s} changed from {w.ref.entries.get(s)} to {entries.get(s)}"))
            w.ref.entries = entries
            return ("put", "absent" if old is None else "newer" if version > old.version else
                    "equal" if version == old.version else "older", actual == allowed[0])
        elif kind == "clean":
            verdict = w.ref.maintenance(now())
            before = self.listing(w)
            w.storage.clean()
            entries, problems = self.snapshot(w)
            w.found += problems
            for slot, want in verdict.items():
                have = entries.get(slot)
                if want == "gone" and have is not None:
                    mixed = len({e.max_age for s, e in w.ref.entries.items() if s[0] == slot[0]}) > 1
                    w.found.append(("storage:clean-leaves-expired-value|lifetimes:" + ("mixed" if mixed else "uniform"),
                                    f"clean(): {slot} is past its lifetime but still stored. before: {before}; "
                                    f"after: {self.listing(w)}"))
                elif want == "kept" and have is None:
                    w.found.append(("storage:clean-removes-live-value",
                                    f"clean(): {slot} was inside its lifetime but is gone. before: {before}"))
                elif have is not None and have != w.ref.entries[slot]:
                    w.found.append(("storage:clean-alters-value", f"clean(): {slot} changed to {have}"))
            for slot in set(entries) - set(verdict):
                w.found.append(("storage:clean-creates-value", f"clean(): {slot} appeared"))
            w.ref.entries = entries
            return ("clean", tuple(sorted(verdict.values())), len(verdict) - len(entries))
        return None

    def digest(self, w: StorageWorld):  # noqa: ANN201
        t = now()
        return (tuple(tuple((v.id, v.data, v.version, round(t - v.last_update, 6), v.max_age)
                            for v in w.storage.items.get(SKEYS[k], [])) for k in range(self.n_keys)),
                w.ref.canonical(t))

    def check(self, w: StorageWorld, hist, ev, obs) -> list:  # noqa: ANN001
        out = list(w.found)
        entries, _ = self.snapshot(w)
        # reads: never report data that is not stored; everything stored is readable; limits respected
        for k in range(self.n_keys):
            stored = sorted(e.data for (kk, _), e in entries.items() if kk == k)
            got_all = w.storage.get(SKEYS[k])
            if sorted(got_all) != stored:
                out.append(("storage:get-disagrees-with-contents", f"get(key{k}) = {got_all}, stored {stored}"))
            for start, limit in ((0, 1), (1, 1), (0, 2), (1, 8)):
                got = w.storage.get(SKEYS[k], starting_point=start, limit=limit)
                if len(got) > limit or len(set(got)) != len(got) or not set(got) <= set(stored):
                    out.append(("storage:get-window", f"get(key{k}, {start}, {limit}) = {got}, stored {stored}"))
        if w.storage.get(hashlib.sha1(b"unknown").digest()) != []:
            out.append(("storage:get-unknown-key", "get() of a key never stored is not empty"))
        after, _ = self.snapshot(w)
        if after != entries:
            out.append(("storage:get-mutates", "reading changed the stored values"))
        return out


# =====================================================================================================================
# part 2: one real DHTCommunity storage node
# =====================================================================================================================

class ObservedDHT(DHTCommunity):
    """The real DHTCommunity; the only addition is that the harness is told when the two maintenance routines run."""

    c15_hook = None

    def token_maintenance(self) -> None:
        super().token_maintenance()
        if self.c15_hook is not None:
            self.c15_hook("token")

    def value_maintenance(self) -> None:
        if self.c15_hook is not None:
            self.c15_hook("values-before")
        super().value_maintenance()
        if self.c15_hook is not None:
            self.c15_hook("values-after")


RANDOM_TOKEN = bytes(range(0x40, 0x54))
ROTATE_S = 301.0      # one token rotation (interval 300 s) plus one second: no request lands on a boundary
LONG_S = 3400.0       # with one rotation before it: values stored at t=0 are past 3600 s, values stored at 301 are not
IDENTITIES = ("A", "M", "AM")   # AM = datagrams signed with A's key arriving from M's address
# A's key from an address that is *almost* A's: same IP other port / an IP that differs only in the bits the DHT's
# node id throws away (node id = crc32(ip & 03.0f.3f.ff)[:3] + mid[:17], the port is not part of it).  They never fetch
# a token of their own; they present A's genuine one and must be refused ("that same requester (address and key)").
NEAR_A = ("Ap", "Am")
FORGED_SIGNATURE = b"\x5c" * 64


def near_address(addr, kind: str) -> UDPv4Address:  # noqa: ANN001
    if kind == "Ap":
        return UDPv4Address(addr[0], addr[1] + 7)
    first, rest = addr[0].split(".", 1)
    twin = UDPv4Address(f"{int(first) ^ 0x04}.{rest}", addr[1])          # bit 2 of the first byte is masked away
    assert [int(b) & m for b, m in zip(twin[0].split("."), (3, 15, 63, 255))] == \
           [int(b) & m for b, m in zip(addr[0].split("."), (3, 15, 63, 255))]
    return twin


def forged_signed(ov, data: bytes, version: int, claim: bytes, signature: bytes = FORGED_SIGNATURE) -> bytes:  # noqa: ANN001
    """
    A value that names ``claim`` as its signer and carries 64 bytes that are not its signature: garbage, or (a
    "splice") the signature bytes of a genuine value of that signer over other content.
    """
    return ov._ez_pack(b"", 1, [SignedStrPayload(data, version, claim)], sig=False) + signature


# splice name -> (genuine value whose signature bytes are reused, version the splice claims)
SPLICES = {"splice1": (1, 1), "splice2": (1, 2), "splice3": (2, 3)}


class CWorld:
    def __init__(self, model: "CommunityModel") -> None:
        self.model = model
        self.net = simnet.World(("c15", model.seed))
        idx = fixtures.rotate(model.seed, 4)
        self.nodes = {n: self.net.add_node(n, idx[i]) for i, n in enumerate("SAMR")}
        self.ov = {n: self.nodes[n].add_overlay(ObservedDHT if n == "S" else DHTCommunity) for n in "SAMR"}
        self.S = self.ov["S"]
        self.s_addr = tuple(self.nodes["S"].address)
        self.pk = {n: self.ov[n].my_peer.public_key.key_to_bin() for n in "SAMR"}
        self.keys = [self.ov["A"].my_peer.mid, hashlib.sha1(b"c15-other-key").digest()]
        self.ref_store = ref.RefStore()
        self.ref_tokens = ref.RefTokens()
        self.held: dict[str, bytes] = {}
        self.held_info: dict[str, tuple] = {}
        self.ident = 7000
        self.found: list = []
        self.maint_verdict = None
        self.counts = {"stores_applied": 0, "stores_refused": 0, "maintenance_runs": 0, "rotations": 0}
        self.S.c15_hook = self.on_maintenance
        for n in "AMR":
            self.ov[n].walk_to(self.nodes["S"].address)
        self.net.flush()
        # A, M and R are drivers (key holders / the reader): their own periodic maintenance is switched off so that a
        # long time step only runs S's timers.  S keeps every periodic task of the real overlay.
        for n in "AMR":
            for name in ("token_maintenance", "node_maintenance", "value_maintenance"):
                self.ov[n].cancel_pending_task(name)
        for x in IDENTITIES:
            self.obtain_token(x)
        self.found = []

    def close(self) -> None:
        self.S.c15_hook = None
        self.net.close()

    # -- identities ------------------------------------------------------------------------------------------------
    def who(self, x: str) -> tuple:
        """(overlay whose key signs, source address the datagram arrives from, public key bin)."""
        # the source address must be the endpoint's own address object (UDPv4Address), as a real endpoint reports it
        if x == "A":
            return self.ov["A"], self.nodes["A"].address, self.pk["A"]
        if x == "M":
            return self.ov["M"], self.nodes["M"].address, self.pk["M"]
        if x in NEAR_A:
            return self.ov["A"], near_address(self.nodes["A"].address, x), self.pk["A"]
        return self.ov["A"], self.nodes["M"].address, self.pk["A"]

    # -- observation of S ------------------------------------------------------------------------------------------
    def snapshot(self) -> tuple[dict, list]:
        entries: dict = {}
        problems = []
        for storage in self.S.storages.values():
            for key, values in storage.items.items():
                k = self.keys.index(key) if key in self.keys else key.hex()
                for v in values:
                    sid = ref.signer_id(v.data)
                    if sid is None:
                        sid = ("unverifiable", v.data)
                    if (k, sid) in entries:
                        problems.append(("store:duplicate-slot", f"two entries for {self.slot_name((k, sid))}"))
                    entries[(k, sid)] = ref.Entry(v.data, v.version, v.last_update, v.max_age)
        return entries, problems

    def value_name(self, raw: bytes) -> str:
        p = ref.parse_value(raw)
        if p is None:
            return f"unverifiable[{len(raw)}B]"
        data, pk, version = p
        who = next((n for n, b in self.pk.items() if b == pk), "?") if pk else None
        d = data.decode("latin-1") if len(data) <= 24 else f"{data[:1].decode('latin-1')}*{len(data)}"
        return f"{d}" if pk is None else f"{d}(signed {who} v{version})"

    def slot_name(self, slot: tuple) -> str:
        k, sid = slot
        if sid[0] == "pk":
            return f"key{k}/signer {next((n for n, b in self.pk.items() if b == sid[1]), '?')}"
        return f"key{k}/{sid[0]} {self.value_name(sid[1])}"

    def listing(self) -> str:
        t = now()
        out = []
        for storage in self.S.storages.values():
            for key, values in storage.items.items():
                k = self.keys.index(key) if key in self.keys else key.hex()
                out.append(f"key{k}: [" + ", ".join(f"{self.value_name(v.data)} age={t - v.last_update:g}/{v.max_age:g}"
                                                     for v in values) + "]")
        return "; ".join(out) or "empty"

    def on_maintenance(self, what: str) -> None:
        if what == "token":
            self.ref_tokens.rotate()
            self.counts["rotations"] += 1
        elif what == "values-before":
            self.maint_verdict = (self.ref_store.maintenance(now()), self.listing())
        elif what == "values-after" and self.maint_verdict is not None:
            verdict, before = self.maint_verdict
            self.maint_verdict = None
            self.counts["maintenance_runs"] += 1
            entries, problems = self.snapshot()
            self.found += problems
            for slot, want in verdict.items():
                have = entries.get(slot)
                if want == "gone" and have is not None:
                    mixed = len({e.max_age for s, e in self.ref_store.entries.items() if s[0] == slot[0]}) > 1
                    self.found.append(("maintenance:expired-value-survives|lifetimes:" + ("mixed" if mixed else "uniform"),
                                       f"value maintenance at t={seams.CLOCK.now:g}: {self.slot_name(slot)} is past its "
                                       f"lifetime but still stored. before: {before}; after: {self.listing()}"))
                elif want == "kept" and have is None:
                    self.found.append(("maintenance:live-value-removed",
                                       f"value maintenance at t={seams.CLOCK.now:g}: {self.slot_name(slot)} was inside "
                                       f"its lifetime but is gone. before: {before}"))
                elif have is not None and have != self.ref_store.entries[slot]:
                    self.found.append(("maintenance:value-altered", f"{self.slot_name(slot)} changed to {have}"))
            self.ref_store.entries = entries

    def resync(self, why: str) -> None:
        entries, problems = self.snapshot()
        self.found += problems
        if entries != self.ref_store.entries:
            diff = [self.slot_name(s) for s in set(entries) | set(self.ref_store.entries)
                    if entries.get(s) != self.ref_store.entries.get(s)]
            self.found.append(("store:contents-change-without-store-or-maintenance", f"{why}: slots {diff} changed"))
            self.ref_store.entries = entries

    # -- wire helpers ----------------------------------------------------------------------------------------------
    @staticmethod
    def body_offset(data: bytes) -> int:
        (klen,) = struct.unpack_from(">H", data, 23)
        return 25 + klen

    def responses(self, n0: int, dst: tuple, msg_id: int) -> list:
        return [dg.data for dg in self.net.wire_log[n0:]
                if dg.sender is self.nodes["S"].endpoint and tuple(dg.dst) == tuple(dst) and dg.data[22] == msg_id]

    def send_to_s(self, src: tuple, packet: bytes) -> int:
        n0 = len(self.net.wire_log)
        self.net.inject(src, self.s_addr, packet)
        self.net.flush()
        return n0

    # -- events ----------------------------------------------------------------------------------------------------
    def obtain_token(self, x: str) -> None:
        ov, src, pk = self.who(x)
        self.ident += 1
        packet = ov.ezr_pack(FindRequestPayload.msg_id,
                             FindRequestPayload(self.ident, src, self.keys[0], 0, True))
        n0 = self.send_to_s(src, packet)
        token = None
        for data in self.responses(n0, src, FindResponsePayload.msg_id):
            off = self.body_offset(data)
            if struct.unpack_from(">I", data, off)[0] == self.ident:
                token = data[off + 4:off + 24]
        if token is None:
            self.found.append(("harness:no-token", f"S did not answer the find-request of {x}"))
            return
        self.held[x] = token
        self.held_info[x] = (seams.CLOCK.now, self.ref_tokens.epoch)
        self.ref_tokens.issue(token, src, pk, now())

    def token_of_other_node(self, x: str) -> bytes | None:
        """x asks node R (another DHT overlay of this process) for values: the token in R's answer."""
        ov, src, _ = self.who(x)
        self.ident += 1
        packet = ov.ezr_pack(FindRequestPayload.msg_id, FindRequestPayload(self.ident, src, self.keys[0], 0, True))
        n0 = len(self.net.wire_log)
        self.net.inject(src, tuple(self.nodes["R"].address), packet)
        self.net.flush()
        for dg in self.net.wire_log[n0:]:
            if dg.sender is self.nodes["R"].endpoint and tuple(dg.dst) == tuple(src) \
                    and dg.data[22] == FindResponsePayload.msg_id:
                off = self.body_offset(dg.data)
                if struct.unpack_from(">I", dg.data, off)[0] == self.ident:
                    return dg.data[off + 4:off + 24]
        return None

    def make_values(self, variant: str) -> list[bytes]:
        a, m = self.ov["A"], self.ov["M"]

        def plain(data: bytes) -> bytes:
            return a.serialize_value(data, sign=False)

        def signed(ov, data: bytes, version: int, claim: bytes | None = None) -> bytes:  # noqa: ANN001
            return ov._ez_pack(b"", 1, [SignedStrPayload(data, version, claim or ov.my_peer.public_key.key_to_bin())],
                               sig=True)

        if variant.startswith("p:"):
            return [plain(b"plain-" + variant[2:].encode())]
        if variant == "big":
            return [plain(b"B" * ref.MAX_ENTRY_SIZE)]                 # one byte over the limit
        if variant == "max":
            return [plain(b"m" * (ref.MAX_ENTRY_SIZE - 1))]           # exactly the limit
        if variant == "nine":
            return [plain(b"n%d" % i) for i in range(ref.MAX_VALUES_IN_STORE + 1)]
        if variant == "eight":
            return [plain(b"e%d" % i) for i in range(ref.MAX_VALUES_IN_STORE)]
        if variant in ("a0", "a1", "a2"):
            v = int(variant[1])
            return [signed(a, b"A-v%d" % v, v)]
        if variant == "m1":
            return [signed(m, b"M-v1", 1)]
        if variant == "broken":
            good = signed(a, b"A-v3", 3)
            return [good[:-1] + bytes([good[-1] ^ 1])]
        if variant == "claim":
            return [signed(m, b"A-v3", 3, claim=self.pk["A"])]       # signed by M, names A's public key
        if variant in ("forge1", "forge2"):
            # names A's key and the SAME version as the genuine a1 / a2, other data, no valid signature
            v = int(variant[-1])
            return [forged_signed(m, b"FORGED-v%d" % v, v, self.pk["A"])]
        if variant in SPLICES:
            # other data, the claimed version, A's key, and the signature bytes of A's genuine v1 / v2
            of, v = SPLICES[variant]
            return [forged_signed(m, b"SPLICED-v%d" % v, v, self.pk["A"], signed(a, b"A-v%d" % of, of)[-64:])]
        raise ValueError(variant)

    def store(self, x: str, token_choice: str, variant: str, k: int) -> str:
        ov, src, pk = self.who(x)
        if token_choice == "@R":
            token = self.token_of_other_node(x)       # a token that ANOTHER node (R) issued to this very requester
        else:
            token = RANDOM_TOKEN if token_choice == "rnd" else self.held.get(x if token_choice == "own" else token_choice)
        if token is None:
            self.found.append(("harness:no-token", f"{token_choice} holds no token"))
            return "skipped"
        values = self.make_values(variant)
        self.ident += 1
        packet = ov.ezr_pack(StoreRequestPayload.msg_id, StoreRequestPayload(self.ident, token, self.keys[k], values))
        before, _ = self.snapshot()
        t = now()
        verdict, why = self.ref_tokens.judge(token, src, pk, t)
        n0 = self.send_to_s(src, packet)
        after, problems = self.snapshot()
        self.found += problems
        acked = bool(self.responses(n0, src, 4))
        ev = f"store-request from {x} ({'A' if x != 'M' else 'M'}'s key, from {src[0]}:{src[1]}) with token '{token_choice}' " \
             f"({why}), values {variant} under key{k}"

        oversize = any(len(v) > ref.MAX_ENTRY_SIZE for v in values)
        too_many = len(values) > ref.MAX_VALUES_IN_STORE
        clean_request = verdict == "accept" and not oversize and not too_many
        touched = set()
        changed = 0
        for raw in values:
            sid = ref.signer_id(raw)
            slot = (k, sid if sid is not None else ("unverifiable", raw))
            if slot in touched:
                self.found.append(("harness:two-values-one-slot", ev))
            touched.add(slot)
            old, got = before.get(slot), after.get(slot)
            changed += old != got
            if verdict == "reject" or len(raw) > ref.MAX_ENTRY_SIZE or sid is None:
                if got != old:
                    if verdict == "reject":
                        cls = f"store:applied-with-bad-token:{why}"
                    elif len(raw) > ref.MAX_ENTRY_SIZE:
                        cls = "store:oversized-value-stored"
                    else:
                        cls = "store:unverifiable-signed-value-stored"
                    self.found.append((cls, f"{ev}: {self.value_name(raw)} ({len(raw)} bytes) was stored; S now holds "
                                            f"{self.listing()}"))
                continue
            parsed = ref.parse_value(raw)
            lifetime = got.max_age if got is not None else ref.MAX_ENTRY_AGE
            allowed = self.ref_store.put_outcomes(k, sid, raw, parsed[2], lifetime, t)
            if not clean_request and old not in allowed:
                allowed = [*allowed, old]
            if got not in allowed:
                if got == old and clean_request:
                    cls = "store:newer-version-ignored" if old is not None else "store:valid-request-not-applied"
                elif old is not None and got is not None and got.version < old.version:
                    cls = "store:older-version-replaces-newer"
                else:
                    cls = "store:unexpected-slot-content"
                self.found.append((cls, f"{ev}: slot {self.slot_name(slot)} was {old}, is {got}; allowed {allowed}"))
            elif got is not None and got != old and not 0 < got.max_age <= ref.MAX_ENTRY_AGE:
                self.found.append(("store:lifetime-out-of-range", f"{ev}: lifetime {got.max_age}"))
        if too_many and changed > ref.MAX_VALUES_IN_STORE:
            self.found.append(("store:more-than-max-values-stored", f"{ev}: {changed} values were stored"))
        for slot in (set(before) | set(after)) - touched:
            if before.get(slot) != after.get(slot):
                self.found.append(("store:disturbs-other-entry", f"{ev}: {self.slot_name(slot)} changed"))
        self.ref_store.entries = after
        applied = after != before
        self.counts["stores_applied" if applied else "stores_refused"] += 1
        return f"{x}/{token_choice}/{variant}: token {verdict} ({why}) -> " + ("applied" if applied else "refused") + \
            ("+ack" if acked else "")

    def apply(self, ev) -> str | None:  # noqa: ANN001
        kind = ev[0]
        out = None
        runs0 = (self.counts["maintenance_runs"], self.counts["rotations"], len(self.ref_store.entries))
        if kind == "tok":
            self.obtain_token(ev[1])
        elif kind == "st":
            out = self.store(ev[1], ev[2], ev[3], ev[4])
        elif kind == "rot":
            self.net.run_for(ROTATE_S)
        elif kind == "long":
            self.net.run_for(LONG_S)
        elif kind == "vm":
            self.nodes["S"].run(self.S.value_maintenance)
            self.net.flush()
        else:
            raise ValueError(ev)
        self.resync(str(ev))
        for rt in self.S.routing_tables.values():
            for bucket in rt.trie.values():
                for node in bucket.nodes.values():
                    if node.blocked:
                        self.found.append(("harness:rate-limit-reached", f"{node} is rate limited by S"))
        if self.net.loop.exceptions:
            e = self.net.loop.exceptions[0]
            self.found.append((f"loop-exception:{type(e.get('exception')).__name__}", str(e)[:400]))
            self.net.loop.exceptions.clear()
        if out is None:
            out = (kind, self.counts["maintenance_runs"] - runs0[0], self.counts["rotations"] - runs0[1],
                   runs0[2] - len(self.ref_store.entries))
        return out

    # -- the reader ------------------------------------------------------------------------------------------------
    def read_and_check(self, k: int) -> tuple[list, tuple]:
        """R.find_values(key) on this world; compares the report with what reached R and with what S holds."""
        out = []
        r_ov, r_node = self.ov["R"], self.nodes["R"]
        n0 = len(self.net.wire_log)
        try:
            report = self.net.drive(r_node.run(r_ov.find_values, self.keys[k]))
        except Exception as e:  # noqa: BLE001
            return [(f"read:exception:{type(e).__name__}", f"find_values(key{k}) raised {e!r}")], ()
        seen, from_s = [], None
        for dg in self.net.wire_log[n0:]:
            if tuple(dg.dst) == tuple(r_node.address) and dg.data[22] == FindResponsePayload.msg_id:
                auth, _ = r_ov.serializer.unpack_serializable(BinMemberAuthenticationPayload, dg.data, offset=23)
                ok, remainder = r_ov._verify_signature(auth, dg.data)
                if not ok:
                    continue
                (payload,) = r_ov.serializer.unpack_serializable_list([FindResponsePayload], remainder, offset=23)
                seen += list(payload.values)
                if dg.sender is self.nodes["S"].endpoint:
                    from_s = list(payload.values)
        for cls, text in ref.check_report(report, seen):
            shown = [(d, None if p is None else next((n for n, b in self.pk.items() if b == p), p[-4:].hex()))
                     for d, p in report]
            out.append((f"read:{cls}", f"find_values(key{k}) -> {shown}: {text}; S holds {self.listing()}"))
        stored = self.ref_store.for_key(k)
        if from_s is not None:
            raws = {e.data for e in stored.values()}
            live = {e.data for e in stored.values() if e.age(now()) <= e.max_age}
            if not set(from_s) <= raws or len(set(from_s)) != len(from_s):
                out.append(("respond:value-not-in-storage", f"S answered find(key{k}) with "
                                                            f"{[self.value_name(v) for v in from_s]}, holds {self.listing()}"))
            elif len(from_s) < min(len(live), 8) or (len(raws) <= 8 and not live <= set(from_s)):
                # (with more than MAX_VALUES_IN_FIND values stored any 8 of them are a complete answer: the reader pages
                # with ``offset``)
                out.append(("respond:stored-value-withheld", f"S answered find(key{k}) with "
                                                             f"{[self.value_name(v) for v in from_s]}, holds {self.listing()}"))
        elif stored:
            out.append(("respond:no-answer", f"S did not answer R's find(key{k})"))
        # end to end: what R reports is backed by S's reference contents
        authentic = {(p[0], p[1]) for e in stored.values() if (p := ref.parse_value(e.data)) is not None}
        for d, p in report:
            if (d, p) not in authentic:
                out.append(("read:reports-value-never-stored", f"find_values(key{k}) reports {(d, p and p[-4:].hex())}"))
        return out, tuple(sorted((d, p) for d, p in report))


class CommunityModel(core.BfsModel):
    def __init__(self, alphabet_name: str, seed: int = 0) -> None:
        self.seed = seed
        self.alphabet_name = alphabet_name
        self.alphabet = community_alphabet(alphabet_name)

    def params(self) -> dict:
        return {"part": "community", "alphabet": self.alphabet_name, "seed": self.seed}

    def initial(self) -> CWorld:
        return CWorld(self)

    def dispose(self, w: CWorld) -> None:
        w.close()

    def apply(self, w: CWorld, ev):  # noqa: ANN001, ANN201
        w.found = []
        return w.apply(tuple(ev))

    def digest(self, w: CWorld):  # noqa: ANN201
        t = now()
        contents = []
        for storage in w.S.storages.values():
            for key, values in sorted(storage.items.items()):
                if values:
                    contents.append((key, tuple((v.id, w.value_name(v.data), v.version, round(t - v.last_update, 6),
                                                 v.max_age) for v in values)))
        members = sorted((n.public_key.key_to_bin(), tuple(n.address)) for rt in w.S.routing_tables.values()
                         for b in rt.trie.values() for n in b.nodes.values())
        a_seen_at = [tuple(p.address) for p in w.S.network.verified_peers if p.public_key.key_to_bin() == w.pk["A"]]
        return (round(seams.CLOCK.now, 6), tuple(contents), w.ref_tokens.epoch, len(w.S.token_secrets),
                tuple(sorted(w.held_info.items())), tuple(members), tuple(a_seen_at), w.ref_store.canonical(t))

    def check(self, w: CWorld, hist, ev, obs) -> list:  # noqa: ANN001
        out = list(w.found)
        used = {k for k, _ in w.ref_store.entries} | ({ev[4]} if ev[0] == "st" else set()) | {0}
        for k in sorted(used):
            v, _ = w.read_and_check(k)
            out += v
        return out


def community_alphabet(name: str) -> list:
    al: list = []
    token_events = [("tok", x) for x in IDENTITIES]
    time_events = [("rot",), ("long",), ("vm",)]
    # token x requester, one small unsigned value each
    token_stores = [("st", x, c, f"p:{x}", 0) for x in IDENTITIES
                    for c in ("own", *[y for y in IDENTITIES if y != x], "rnd")]
    # value alphabet, honest requester with its own token
    value_stores = [("st", "A", "own", v, 0) for v in ("big", "max", "nine", "eight", "a1", "a2", "a0", "m1",
                                                       "broken", "claim")]
    other = [("st", "A", "own", "p:A", 1), ("st", "A", "own", "a1", 1), ("st", "M", "own", "a2", 0),
             # A's genuine token presented with A's key from a near-identical address
             *[("st", x, "A", f"p:{x}", 0) for x in NEAR_A],
             # an adversary with a perfectly good token stores a forgery of a value S may have verified before
             ("st", "M", "own", "forge1", 0),
             # a token that another node of the same process issued to the same requester
             ("st", "A", "@R", "p:A", 0)]
    if name == "full":
        al = token_events + time_events + token_stores + value_stores + other
    elif name == "forgery":
        # dedicated short family: genuine signed values, then forgeries with the same / other (signer, version)
        al = [("st", "A", "own", "a1", 0), ("st", "A", "own", "a2", 0), ("st", "M", "own", "a2", 0),
              ("st", "M", "own", "forge1", 0), ("st", "M", "own", "forge2", 0), ("st", "A", "own", "forge2", 0),
              ("st", "M", "own", "broken", 0), ("st", "M", "own", "claim", 0), ("vm",),
              *[("st", "M", "own", sp, 0) for sp in SPLICES]]
    elif name == "lifetimes":
        # writers with good tokens only: versions, lifetimes, maintenance, rotation
        al = token_events[:2] + time_events + [("st", "M", "own", "p:M", 0), ("st", "A", "own", "p:A", 0),
                                               ("st", "A", "own", "a1", 0), ("st", "A", "own", "a2", 0),
                                               ("st", "M", "own", "a2", 0), ("st", "A", "own", "m1", 0),
                                               ("st", "A", "own", "p:A", 1)]
    elif name == "expiry":
        # the smallest alphabet in which two values of one key get different ages: a third party's unsigned value
        # and the key owner's signed value (the DHT keeps the owner's value last in the list)
        al = [*time_events, ("st", "M", "own", "p:M", 0), ("st", "A", "own", "a1", 0), ("st", "A", "own", "a2", 0)]
    else:
        raise ValueError(name)
    return [tuple(e) for e in al]


# =====================================================================================================================
# part 3: the reader against an honest and a malicious responder
# =====================================================================================================================

READER_VALUES = ("plain", "a0", "a1", "a2", "a2'", "m1", "broken", "claim", "junk", "forge1", "splice2")


def reader_case(seed: int, honest: tuple, malicious: tuple, before: tuple = (), dual: bool = False) -> tuple[list, tuple]:
    """
    H (honest) and X (malicious) both hold values under the key; X's storage is filled directly, i.e. X answers with
    whatever it likes.  R knows both and performs find_values.  Returns (violations, observation).

    With ``before`` the same reader first performs a lookup while H holds ``before`` (and X nothing); then both
    responders' contents are replaced by ``honest`` / ``malicious`` and R looks the key up again.

    With ``dual`` the second responder lives at an IPv6 address, so the reader keeps it in a second routing table and
    reaches the two responders through two separate crawls of the same lookup.
    """
    net = simnet.World(("c15r", seed))
    try:
        idx = fixtures.rotate(seed, 4)
        names = ("H", "A", "X", "R")        # A and X only lend their keys for signing
        nodes = {n: net.add_node(n, idx[i], UDPv6Address("2001:db8::6", 1006) if dual and n == "X" else None)
                 for i, n in enumerate(names)}
        ov = {n: nodes[n].add_overlay(DHTCommunity) for n in ("H", "X", "R", "A")}
        for n in ("H", "X"):
            ov["R"].walk_to(nodes[n].address)
        net.flush()
        if dual and len(ov["R"].routing_tables) != 2:
            return [("harness:reader-not-dual-stack", f"reader keeps {len(ov['R'].routing_tables)} routing table(s)")], ()
        r_as_seen = Peer(ov["R"].my_peer.public_key.key_to_bin(), nodes["R"].address)
        a, x = ov["A"], ov["X"]
        key = a.my_peer.mid
        pk_a = a.my_peer.public_key.key_to_bin()

        def signed(o, data: bytes, version: int, claim: bytes | None = None) -> bytes:  # noqa: ANN001
            return o._ez_pack(b"", 1, [SignedStrPayload(data, version, claim or o.my_peer.public_key.key_to_bin())], True)

        def value(v: str) -> bytes:
            if v == "plain":
                return a.serialize_value(b"plain", sign=False)
            if v in ("a0", "a1", "a2"):
                return signed(a, b"A-v" + v[1:].encode(), int(v[1]))
            if v == "a2'":
                return signed(a, b"A-v2-other", 2)
            if v == "m1":
                return signed(x, b"X-v1", 1)
            if v == "broken":
                good = signed(a, b"A-v3", 3)
                return good[:-1] + bytes([good[-1] ^ 1])
            if v == "claim":
                return signed(x, b"A-v3", 3, claim=pk_a)
            if v == "junk":
                return b"\x02junk"
            if v in ("forge1", "forge2"):
                return forged_signed(x, b"FORGED-v" + v[-1:].encode(), int(v[-1]), pk_a)
            if v in SPLICES:
                of, ver = SPLICES[v]
                return forged_signed(x, b"SPLICED-v%d" % ver, ver, pk_a, signed(a, b"A-v%d" % of, of)[-64:])
            raise ValueError(v)

        r = ov["R"]
        who = {pk_a: "A", x.my_peer.public_key.key_to_bin(): "X"}

        def lookup(h_vals: tuple, x_vals: tuple, label: str) -> tuple[list, tuple]:
            for name, vals in (("H", h_vals), ("X", x_vals)):
                st = ov[name].get_storage(r_as_seen if dual else ov[name].my_peer)   # the storage R is served from
                st.items.pop(key, None)
                for i, v in enumerate(reversed(vals)):
                    st.put(key, value(v), id_=b"slot-%d" % i)       # served in the listed order
            n0 = len(net.wire_log)
            case = (f"{label}honest responder holds {list(h_vals)}, "
                    f"{'responder in the IPv6 routing table' if dual else 'malicious responder'} answers {list(x_vals)}")
            try:
                report = net.drive(nodes["R"].run(r.find_values, key))
            except Exception as e:  # noqa: BLE001
                return [(f"reader:exception:{type(e).__name__}", f"{case}: find_values raised {e!r}")], ("exception",)
            seen = []
            for dg in net.wire_log[n0:]:
                if tuple(dg.dst) == tuple(nodes["R"].address) and dg.data[22] == FindResponsePayload.msg_id:
                    auth, _ = r.serializer.unpack_serializable(BinMemberAuthenticationPayload, dg.data, offset=23)
                    ok, remainder = r._verify_signature(auth, dg.data)
                    if ok:
                        (payload,) = r.serializer.unpack_serializable_list([FindResponsePayload], remainder, offset=23)
                        seen += list(payload.values)
            shown = [(d, who.get(p, p and p[-4:].hex())) for d, p in report]
            viol = [(f"reader:{cls}", f"{case}; find_values -> {shown}: {text}")
                    for cls, text in ref.check_report(report, seen)]
            if (h_vals or x_vals) and not seen:
                viol.append(("harness:reader-saw-nothing", case))
            return viol, tuple(sorted(shown, key=repr))

        viol0: list = []
        obs0: tuple = ()
        label = ""
        if before:
            viol0, obs0 = lookup(tuple(before), (), "first lookup: ")
            label = f"second lookup by the same reader (the first one saw {list(before)}): "
        viol, obs = lookup(honest, malicious, label)
        return viol0 + viol, (obs0, obs) if before else obs
    finally:
        net.close()


_READER_SEED = 0


def reader_chunk(chunk: list) -> list:
    out = []
    for case in chunk:
        honest, malicious, before, dual = (*case, (), False)[:4] if len(case) < 4 else case[:4]
        v, obs = reader_case(_READER_SEED, tuple(honest), tuple(malicious), tuple(before), bool(dual))
        out.append((tuple(honest), tuple(malicious), tuple(before), v, obs, bool(dual)))
    return out


def reader_cases(max_h: int, max_x: int) -> list:
    honest_alpha = ("plain", "a0", "a1", "a2", "m1")
    hs = [c for n in range(max_h + 1) for c in itertools.permutations(honest_alpha, n)
          if len({v[0] for v in c if v[0] == "a"}) == len([v for v in c if v[0] == "a"])]   # one value per signer
    xs = [c for n in range(max_x + 1) for c in itertools.permutations(READER_VALUES, n)]
    cases = [(h, x, ()) for h in hs for x in xs]
    # reader with a history: it has seen a genuine value, then a malicious responder answers (forgeries naming the same
    # signer with the same / another version among them)
    second = ("forge1", "forge2", "a1", "plain", "broken", "splice1", "splice2", "splice3")
    xs2 = [c for n in range(1, 3) for c in itertools.permutations(second, n)]
    cases += [((), x, (g,)) for g in ("a1", "a2") for x in xs2]
    # dual-stack reader: the two responders sit in different routing tables (IPv4 / IPv6) and hold what honest nodes of
    # two diverged address families would hold (versions of the same signer, another signer, unsigned data)
    fam = ("plain", "a0", "a1", "a2", "m1")
    one = [c for n in range(3) for c in itertools.permutations(fam, n)
           if len([v for v in c if v[0] == "a"]) <= 1]
    cases += [(h, x, (), True) for h in one for x in one if h or x]
    return cases


# =====================================================================================================================
# part 4: store-peer requests (DHTDiscoveryCommunity): bound to a valid token and to the requester's own mid
# =====================================================================================================================

def store_peer_case(seed: int, x: str, token_choice: str, target_choice: str, rotations: int) -> tuple[list, tuple]:
    net = simnet.World(("c15p", seed))
    try:
        idx = fixtures.rotate(seed, 3)
        nodes = {n: net.add_node(n, idx[i]) for i, n in enumerate("SAM")}
        ov = {"S": nodes["S"].add_overlay(DHTDiscoveryCommunity), "A": nodes["A"].add_overlay(DHTCommunity),
              "M": nodes["M"].add_overlay(DHTCommunity)}
        for n in "AM":
            ov[n].walk_to(nodes["S"].address)
        net.flush()
        s_ov, s_ep, s_addr = ov["S"], nodes["S"].endpoint, nodes["S"].address
        who = {"A": (ov["A"], nodes["A"].address), "M": (ov["M"], nodes["M"].address),
               "AM": (ov["A"], nodes["M"].address),
               **{n: (ov["A"], near_address(nodes["A"].address, n)) for n in NEAR_A}}
        tokens = ref.RefTokens()
        held: dict[str, bytes] = {}
        ident = 9000
        for y in IDENTITIES:
            o, src = who[y]
            ident += 1
            n0 = len(net.wire_log)
            net.inject(src, s_addr, o.ezr_pack(FindRequestPayload.msg_id,
                                               FindRequestPayload(ident, src, o.my_peer.mid, 0, True)))
            net.flush()
            for dg in net.wire_log[n0:]:
                if dg.sender is s_ep and tuple(dg.dst) == tuple(src) and dg.data[22] == FindResponsePayload.msg_id:
                    off = CWorld.body_offset(dg.data)
                    if struct.unpack_from(">I", dg.data, off)[0] == ident:
                        held[y] = dg.data[off + 4:off + 24]
                        tokens.issue(held[y], tuple(src), o.my_peer.public_key.key_to_bin(), now())
        if len(held) != len(IDENTITIES):
            return [("harness:no-token", f"store-peer world: tokens only for {sorted(held)}")], ()
        for _ in range(rotations):
            net.run_for(ROTATE_S)        # token_maintenance runs every 300 s
            tokens.rotate()
        o, src = who[x]
        pk = o.my_peer.public_key.key_to_bin()
        token = RANDOM_TOKEN if token_choice == "rnd" else held[x if token_choice == "own" else token_choice]
        target = o.my_peer.mid if target_choice == "own" else ov["M" if x != "M" else "A"].my_peer.mid

        def listing() -> dict:
            return {k: sorted((n.public_key.key_to_bin(), tuple(n.address)) for n in v)
                    for k, v in s_ov.store.items() if v}

        before = listing()
        verdict, why = tokens.judge(token, tuple(src), pk, now())
        ident += 1
        net.inject(src, s_addr, o.ezr_pack(StorePeerRequestPayload.msg_id,
                                           StorePeerRequestPayload(ident, token, target)))
        net.flush()
        after = listing()
        case = f"store-peer-request from {x} at {src[0]}:{src[1]} with token '{token_choice}' ({why}) after {rotations} " \
               f"rotation(s), target = {'its own mid' if target_choice == 'own' else 'the mid of another peer'}"
        viol = []
        if after != before:
            if verdict == "reject":
                viol.append((f"store-peer:applied-with-bad-token:{why}", f"{case}: S registered the peer"))
            if target_choice != "own":
                viol.append(("store-peer:foreign-mid-accepted", f"{case}: S registered the peer under a mid that is "
                                                                "not the requester's"))
            want = {**before, target: sorted([*before.get(target, []), (pk, tuple(src))])}
            if verdict != "reject" and target_choice == "own" and after != want:
                viol.append(("store-peer:wrong-node-registered", f"{case}: S.store went from {len(before)} to "
                                                                 f"{len(after)} keys, not the requester under its mid"))
        elif verdict == "accept" and target_choice == "own":
            viol.append(("store-peer:valid-request-not-applied", f"{case}: S did not register the peer"))
        return viol, (verdict, why, target_choice, after != before)
    finally:
        net.close()


def store_peer_chunk(chunk: list) -> list:
    return [(c, *store_peer_case(_READER_SEED, *c)) for c in chunk]


def store_peer_cases() -> list:
    return [(x, c, t, r) for x in IDENTITIES for c in ("own", *[y for y in IDENTITIES if y != x], "rnd")
            for t in ("own", "other") for r in (0, 1, 2)] + \
           [(x, "A", t, r) for x in NEAR_A for t in ("own", "other") for r in (0, 1, 2)]


# =====================================================================================================================
# run / replay
# =====================================================================================================================

def storage_configs(ctx: core.Ctx) -> list:
    if ctx.thorough:
        return [(StorageModel(1, (0, 1, 2), (30, 300), (1, 30, 300), ctx.seed), 6),
                (StorageModel(2, (1, 2), (30, 300), (30, 300), ctx.seed, unsigned=("u0",), alt=False), 5),
                (StorageModel(1, (1, 2), (30, 300), (1, 30, 300), ctx.seed, unsigned=("u0",), alt=False), 7)]
    return [(StorageModel(1, (0, 1, 2), (30, 300), (1, 30, 300), ctx.seed), 4),
            (StorageModel(1, (1, 2), (30, 300), (30, 300), ctx.seed, unsigned=("u0",), alt=False), 5)]


def community_configs(ctx: core.Ctx) -> list:
    if ctx.thorough:
        return [(CommunityModel("full", ctx.seed), 4), (CommunityModel("lifetimes", ctx.seed), 5),
                (CommunityModel("expiry", ctx.seed), 7), (CommunityModel("forgery", ctx.seed), 5)]    # depth 8 would reach S's rate limiter (10 queries / 5 s)
    return [(CommunityModel("full", ctx.seed), 3), (CommunityModel("lifetimes", ctx.seed), 4),
            (CommunityModel("expiry", ctx.seed), 5), (CommunityModel("forgery", ctx.seed), 3)]


def run(ctx: core.Ctx) -> core.Report:
    global _READER_SEED
    _READER_SEED = ctx.seed
    violations: list = []
    runs, samples = [], []
    states = transitions = outcomes = 0
    exhaustive = True
    for model, depth in storage_configs(ctx) + community_configs(ctx):
        t0 = seams.REAL_PERF()
        r = core.bfs(model, depth, ctx.jobs, chunk=1 if isinstance(model, CommunityModel) else 32)
        states += r["states"]
        transitions += r["transitions"]
        outcomes += r["distinct_outcomes"]
        exhaustive &= not r["capped"]
        runs.append({"world": model.params(), "alphabet_size": len(model.alphabet), "depth": r["completed_depth"],
                     "states": r["states"], "transitions": r["transitions"], "levels": r["levels"],
                     "fixpoint": r["fixpoint"], "distinct_observations": r["distinct_outcomes"],
                     "wall_s": round(seams.REAL_PERF() - t0, 1)})
        samples.extend(r["samples"][:1])
        for v in r["violations"]:
            v.replay = {**model.params(), "history": v.replay["history"]}
            v.what = f"[{model.params()['part']}] after {v.replay['history'][:-1]}: {v.what}"
            violations.append(v)

    # part 3
    cases = reader_cases(2, 3) if ctx.thorough else reader_cases(1, 2)
    res = core.pmap(reader_chunk, cases, ctx.jobs, chunk=8)
    reader_obs = set()
    seen_keys = set()
    for honest, malicious, before, viol, obs, dual in sorted(res, key=lambda r: (len(r[0]) + len(r[1]) + len(r[2]),
                                                                                repr(r[:3]), r[5])):
        reader_obs.add((obs, dual))
        for key, what in viol:
            key = key + ("|dual-stack" if dual else "")
            if key not in seen_keys:
                seen_keys.add(key)
                violations.append(core.Violation(key, what, {"part": "reader", "seed": ctx.seed, "before": list(before),
                                                             "honest": list(honest), "malicious": list(malicious),
                                                             "dual": dual}))
    samples.append({"reader_case": {"before": list(cases[-1][2]), "honest": list(cases[-1][0]),
                                    "malicious": list(cases[-1][1])}})

    # part 4
    sp_cases = store_peer_cases()
    sp_obs = set()
    for case, viol, obs in sorted(core.pmap(store_peer_chunk, sp_cases, ctx.jobs, chunk=2), key=lambda r: repr(r[0])):
        sp_obs.add(obs)
        for key, what in viol:
            if key not in seen_keys:
                seen_keys.add(key)
                violations.append(core.Violation(key, what, {"part": "store-peer", "seed": ctx.seed,
                                                             "case": list(case)}))
    samples.append({"store_peer_case": list(sp_cases[0])})

    cov = {
        "states": states, "transitions": transitions + len(cases) + len(sp_cases),
        "traces_validated_against_impl": transitions + len(cases) + len(sp_cases),
        "samples": samples, "exhaustive": exhaustive,
        "distinct_outcomes": outcomes + len(reader_obs) + len(sp_obs), "runs": runs,
        "reader_cases": len(cases), "reader_distinct_reports": len(reader_obs),
        "store_peer_cases": len(sp_cases), "store_peer_distinct_outcomes": len(sp_obs),
        "explanation": "states = distinct abstract states (storage contents with ages [+ clock, token epoch, tokens "
                       "held, S's routing members for the community part]); transitions = events executed on the real "
                       "code, each followed by the reference comparison and (community part) a find_values by the "
                       "real reader; reader cases are single executions of find_values against two responders.",
    }
    return core.Report(LEVEL, cov, violations, ASSUMPTIONS)


ASSUMPTIONS = [
    "signature validity is decided by ipv8_rust_tunnels.PublicKey.verify called directly (trusted base)",
    "where the statement is silent the reference accepts either outcome (equal version re-put; older version onto an "
    "expired-but-uncleaned entry; age exactly equal to the lifetime at maintenance; token older than one rotation but "
    "younger than 600 s; the remaining values of a request carrying an oversized value or more than 8 values)",
    "obligation to store is only asserted for a request with a token issued in the current rotation period, all values "
    "within the limits and verifiable",
    "tokens presented are the ones obtained by token-fetch events (find-requests) or 20 fixed bytes; S's rate limiter "
    "(10 queries / 5 s per node) is never reached within the depth bound (asserted on every transition)",
    "store-peer requests (dht/discovery.py) are checked one request at a time (token x requester x target x 0-2 "
    "rotations), not in histories",
    "community part: only S is introduced to A, M and R (no third-party caches); the reader part covers two responders",
]


def replay(ctx: core.Ctx, data: dict) -> list:
    part = data.get("part")
    if part == "reader":
        dual = bool(data.get("dual"))
        v, _ = reader_case(data["seed"], tuple(data["honest"]), tuple(data["malicious"]),
                           tuple(data.get("before", ())), dual)
        return [core.Violation(k + ("|dual-stack" if dual else ""), what) for k, what in v]
    if part == "store-peer":
        v, _ = store_peer_case(data["seed"], *data["case"])
        return [core.Violation(k, what) for k, what in v]
    model = StorageModel.from_params(data) if part == "storage" else CommunityModel(data["alphabet"], data["seed"])
    hist = [tuple(e) for e in data["history"]]
    seams.reseed(("bfs", model.seed))
    world = model.initial()
    out = []
    try:
        for i, ev in enumerate(hist):
            obs = model.apply(world, ev)
            if i == len(hist) - 1:
                out = [core.Violation(k, what) for k, what in model.check(world, hist[:i], ev, obs)]
    finally:
        model.dispose(world)
    return out
