"""
C16 - A token tree only ever holds its owner's signed chain, in any order.

Bounded exhaustive enumeration on the real ``TokenTree``/``Token``:

* every parent function ("shape") on n tokens x every arrival permutation, offered to a public-key-only tree
  through ``gather_token`` (Token objects) and through ``unserialize_public`` (wire form);
* the same with one or two intruders (forged signature, re-parented copy, token of another key, dangling token,
  child of a forged token, duplicate with/without content, right pointer with wrong content) at every position;
* the same with the waiting area lowered to 2 (order independence is only asserted while the reference says it
  is never exceeded; past that only safety);
* ``serialize_public()`` of every reached tree reloaded into a fresh tree, ``serialize_public(up_to=...)`` of
  every contained token;
* ``unserialize_public`` on every prefix and on single-byte substitutions of valid dumps.

Oracle: ``mc.ref.c16_ref`` (set closure + direct Rust signature verification), compared after *every* arrival;
plus a reference-free comparison of the final (elements, waiting) pair across all orders of one multiset.
"""
from __future__ import annotations

import itertools
import math
from hashlib import sha3_256

from ipv8.attestation.identity.database import IdentityDatabase
from ipv8.attestation.identity.manager import PseudonymManager
from ipv8.attestation.identity.metadata import Metadata
from ipv8.attestation.tokentree.token import Token
from ipv8.attestation.tokentree.tree import TokenTree

from .. import core, fixtures
from ..ref import c16_ref as ref

LEVEL = "exploration"

DEFAULT_CAP = 100          # TokenTree.unchained_max_size as shipped; never reached with <= 9 offered tokens
BLOCK = 240                # arrival orders per work item
WRONG_PROBE = b"c16 content that hashes to nothing on the tree"


# ------------------------------------------------------------------------------------------------
# shapes
# ------------------------------------------------------------------------------------------------

def labelled_shapes(n: int) -> list[tuple]:
    """Every parent function: token i hangs off genesis (-1) or off an earlier token."""
    return [tuple(p) for p in itertools.product(*[range(-1, i) for i in range(n)])]


def _canon(parents: tuple) -> str:
    kids: dict = {i: [] for i in range(-1, len(parents))}
    for i, p in enumerate(parents):
        kids[p].append(i)

    def enc(v: int) -> str:
        return "(" + "".join(sorted(enc(c) for c in kids[v])) + ")"
    return enc(-1)


def unlabelled_shapes(n: int) -> list[tuple]:
    """One representative (the lexicographically first parent function) per rooted-forest isomorphism class."""
    seen: dict = {}
    for p in labelled_shapes(n):
        seen.setdefault(_canon(p), p)
    return sorted(seen.values())


def has_fork(parents: tuple) -> bool:
    return any(list(parents).count(p) > 1 for p in set(parents))


# ------------------------------------------------------------------------------------------------
# material: real tokens made once per (keys, shape) by a scratch tree that owns the private key
# ------------------------------------------------------------------------------------------------

class Item:
    __slots__ = ("label", "prev", "chash", "sig", "content", "cls", "right_content", "prime")

    def __init__(self, label, prev, chash, sig, content, cls, right_content=None, prime=None) -> None:  # noqa: ANN001
        self.label, self.prev, self.chash, self.sig, self.content, self.cls = label, prev, chash, sig, content, cls
        self.right_content = right_content
        self.prime = prime      # None | "verify" | "owner-tree": what happened to the very object before it is offered

    @property
    def wire(self) -> bytes:
        return self.prev + self.chash + self.sig

    @property
    def triple(self) -> tuple:
        return (self.prev, self.chash, self.sig)


def _flip(b: bytes, pos: int) -> bytes:
    pos %= len(b)
    return b[:pos] + bytes([b[pos] ^ 1]) + b[pos + 1:]


class Material:
    def __init__(self, curve: str, owner: int, foreign: int, parents: tuple) -> None:
        self.curve, self.owner, self.foreign, self.parents = curve, owner, foreign, parents
        self.sk = fixtures.private_key(owner, curve)
        self.fk = fixtures.private_key(foreign, curve)
        self.pub = self.sk.pub()
        self.pub_bin = self.pub.key_to_bin()
        self.genesis = sha3_256(self.pub_bin).digest()
        self.sig_len = self.pub.get_signature_length()
        self.chunk = 64 + self.sig_len
        scratch = TokenTree(private_key=self.sk)
        toks: list = []
        self.tree_items: list[Item] = []
        for i, p in enumerate(parents):
            content = b"c16 content %d" % i
            t = scratch.add(content, after=None if p < 0 else toks[p])
            toks.append(t)
            # even tokens travel with their content, odd ones as bare double pointers
            self.tree_items.append(Item(f"T{i}", t.previous_token_hash, t.content_hash, t.signature,
                                        content if i % 2 == 0 else None, "tree", content))
        self.dump = scratch.serialize_public()       # a genuine public serialisation (parents first)
        self._extras: dict = {}
        self._views: dict = {"pub": self.pub, "secret": self.sk}
        self._md = None

    @property
    def dummy_md(self):  # noqa: ANN201
        """Owner-signed metadata that points at no token: add_credential stores the token, no credential is formed."""
        if self._md is None:
            self._md = Metadata(b"\x00" * 32, b"{}", self.sk)
        return self._md

    def view_key(self, view: str):  # noqa: ANN201
        """
        The key object handed to ``TokenTree(public_key=...)``.  Every private key object is-a PublicKey in ipv8, so
        a caller may legitimately pass one that still carries its secret part (``my_peer.key``, or a key loaded with
        ``key_from_private_bin``); the tree must behave as the same owner's view either way.
        """
        if view not in self._views:
            assert view == "secret-reloaded", view
            from ipv8.keyvault.crypto import default_eccrypto
            self._views[view] = default_eccrypto.key_from_private_bin(self.sk.key_to_bin())
        return self._views[view]

    def _own(self, prev: bytes, content: bytes) -> Token:
        return Token(prev, content=content, private_key=self.sk)

    def extra(self, spec: tuple) -> list[Item]:
        spec = tuple(spec)
        if spec not in self._extras:
            self._extras[spec] = self._build_extra(*spec)
        return self._extras[spec]

    def _build_extra(self, kind: str, t: int, var: str) -> list[Item]:
        base = self.tree_items[t] if t < len(self.tree_items) else None
        tag = f"{kind}.{var}" if var else kind
        if var.split(":")[0] not in ("nowhere", "chain", "on-genesis", "own-genesis"):
            tag += f"(T{t})"
        if kind == "badsig":
            assert base is not None
            if var == "sig0":
                return [Item(tag, base.prev, base.chash, _flip(base.sig, 0), None, "badsig")]
            if var == "sigN":
                return [Item(tag, base.prev, base.chash, _flip(base.sig, -1), None, "badsig")]
            if var == "content":
                return [Item(tag, base.prev, _flip(base.chash, 0), base.sig, None, "badsig")]
            if var == "prev":
                return [Item(tag, _flip(base.prev, 0), base.chash, base.sig, None, "badsig")]
            if var == "reroot":
                return [Item(tag, self.genesis, base.chash, base.sig, None, "badsig")]
            if var == "graft":
                u = next(i for i in range(len(self.parents)) if i != t and i != self.parents[t])
                other = self.tree_items[u]
                return [Item(tag, ref.token_hash(*other.triple), base.chash, base.sig, None, "badsig")]
        if kind in ("foreign", "foreign-primed"):
            var, _, prime = var.partition(":")
            if var == "on-token":
                assert base is not None
                prev = ref.token_hash(*base.triple)
            elif var == "on-genesis":
                prev = self.genesis
            else:
                prev = sha3_256(self.fk.pub().key_to_bin()).digest()
            tok = Token(prev, content=b"c16 foreign", private_key=self.fk)
            return [Item(tag, tok.previous_token_hash, tok.content_hash, tok.signature, b"c16 foreign", kind,
                         prime=prime or None)]
        if kind == "dangling":
            if var == "nowhere":
                tok = self._own(sha3_256(b"c16 nowhere").digest(), b"c16 dangling")
                return [Item(tag, tok.previous_token_hash, tok.content_hash, tok.signature, None, "dangling")]
            if var == "chain":
                d = self._own(sha3_256(b"c16 nowhere").digest(), b"c16 dangling")
                c = self._own(d.get_hash(), b"c16 dangling child")
                return [Item(tag + "#0", d.previous_token_hash, d.content_hash, d.signature, None, "dangling"),
                        Item(tag + "#1", c.previous_token_hash, c.content_hash, c.signature, b"c16 dangling child",
                             "dangling")]
            if var == "child-of-forged":
                assert base is not None
                forged = Item(tag + "#forged", base.prev, base.chash, _flip(base.sig, 0), None, "badsig")
                c = self._own(ref.token_hash(*forged.triple), b"c16 child of forged")
                return [forged, Item(tag + "#child", c.previous_token_hash, c.content_hash, c.signature, None,
                                     "dangling")]
        if kind == "twin":
            # the owner signs the same double pointer (same parent, same content) a second time: with randomised
            # signatures (the ECDSA curves) that is a second, distinct, equally valid token with its own identity
            assert base is not None
            tw = self._own(base.prev, base.right_content)
            twin = Item(tag if var != "child" else tag + "#twin", tw.previous_token_hash, tw.content_hash,
                        tw.signature, None if base.content is not None else base.right_content, "twin",
                        base.right_content)
            if var != "child":
                return [twin]
            c = self._own(ref.token_hash(*twin.triple), b"c16 child of twin of T%d" % t)
            return [twin, Item(tag + "#child", c.previous_token_hash, c.content_hash, c.signature, None, "twin-child",
                               b"c16 child of twin of T%d" % t)]
        if kind == "dup":
            assert base is not None
            return [Item(tag, base.prev, base.chash, base.sig, base.right_content if var == "content" else None,
                         "dup", base.right_content)]
        if kind == "wrongcontent":
            assert base is not None
            return [Item(tag, base.prev, base.chash, base.sig, b"c16 wrong content for T%d" % t, "wrongcontent",
                         base.right_content)]
        raise ValueError((kind, t, var))


def extras_for(parents: tuple) -> list[tuple]:
    """Every single-intruder spec for this shape (the alphabet of deviations)."""
    n = len(parents)
    out: list = []
    for t in range(n):
        out += [("badsig", t, "sig0"), ("badsig", t, "sigN"), ("badsig", t, "content"), ("badsig", t, "prev")]
        if parents[t] != -1:
            out.append(("badsig", t, "reroot"))
        if any(i != t and i != parents[t] for i in range(n)):
            out.append(("badsig", t, "graft"))
        out += [("foreign", t, "on-token"), ("dup", t, "bare"), ("dup", t, "content"), ("wrongcontent", t, ""),
                ("dangling", t, "child-of-forged")]
    out += [("foreign", 0, "on-genesis"), ("foreign", 0, "own-genesis"), ("dangling", 0, "nowhere"),
            ("dangling", 0, "chain")]
    return out


def primed_foreign_for(parents: tuple) -> list[tuple]:
    """Every 'foreign' variant, as an object already verified under its real key in one of two legitimate ways."""
    out: list = []
    for mode in ("verify", "owner-tree"):
        out += [("foreign-primed", t, f"on-token:{mode}") for t in range(len(parents))]
        out += [("foreign-primed", 0, f"on-genesis:{mode}"), ("foreign-primed", 0, f"own-genesis:{mode}")]
    return out


def twins_for(parents: tuple) -> list[tuple]:
    """A separately signed twin of every token, alone and with a child of its own (the original keeps its children)."""
    return [("twin", t, var) for t in range(len(parents)) for var in ("", "child")]


ECDSA_CURVES = ["very-low", "low", "medium", "high"]     # randomised signatures; curve25519 twins are plain duplicates

TWO_ITEM = {("dangling", "chain"), ("dangling", "child-of-forged")}

_MATERIAL: dict = {}


def material(curve: str, owner: int, foreign: int, parents: tuple) -> Material:
    k = (curve, owner, foreign, tuple(parents))
    if k not in _MATERIAL:
        _MATERIAL[k] = Material(*k)
    return _MATERIAL[k]


# ------------------------------------------------------------------------------------------------
# scenarios
# ------------------------------------------------------------------------------------------------

def scenario(family: str, curve: str, owner: int, foreign: int, parents: tuple, extras=(), cap: int = DEFAULT_CAP,  # noqa: ANN001
             via: str = "gather") -> dict:
    return {"family": family, "curve": curve, "owner": owner, "foreign": foreign, "parents": list(parents),
            "extras": [list(e) for e in extras], "cap": cap, "via": via}


def scenario_items(scn: dict) -> tuple[Material, list[Item]]:
    mat = material(scn["curve"], scn["owner"], scn["foreign"], tuple(scn["parents"]))
    items = list(mat.tree_items)
    for e in scn["extras"]:
        items += mat.extra(tuple(e))
    return mat, items


def shape_str(parents) -> str:  # noqa: ANN001
    return "{" + ", ".join(f"T{i}<-{'genesis' if p < 0 else 'T%d' % p}" for i, p in enumerate(parents)) + "}"


def make_token(it: Item, mat: Material) -> Token:
    """
    A fresh object for every offer: the tree keeps and mutates what it is given.

    "Primed" intruders of another key are the same Python object that has first been checked legitimately under its
    real key (directly, or by being offered to a public-key-only tree of its real owner, where it merely waits).
    """
    if it.content is None:
        tok = Token.unserialize(it.wire, mat.pub)
    else:
        tok = Token.from_database_tuple(it.prev, it.sig, it.chash, it.content)
    if it.prime == "verify":
        tok.verify(mat.fk.pub())
    elif it.prime == "owner-tree":
        TokenTree(public_key=mat.fk.pub()).gather_token(tok)
    return tok


def _th(tok) -> bytes:  # noqa: ANN001
    """Identity of a Token object computed from its fields (not from its cached ``_hash``)."""
    return ref.token_hash(tok.previous_token_hash, tok.content_hash, tok.signature)


class Prefixes:
    """Reference expectations after every arrival (prefix closure), built from ``ref.Expect``."""

    def __init__(self, mat: Material, offered: list[Item]) -> None:
        self.steps = [ref.Expect(mat.pub_bin, [o.triple for o in offered[:k + 1]]) for k in range(len(offered))]
        self.final = self.steps[-1] if self.steps else ref.Expect(mat.pub_bin, [])


def _names(hashes, name_of: dict) -> str:  # noqa: ANN001
    return "[" + ", ".join(sorted(name_of.get(h, "?" + h.hex()[:8]) for h in hashes)) + "]"


def _cause_of_missing(offered: list[Item], exp: ref.Expect, present: set, missing: set) -> str:
    """Derived from the history and the reference only: did the missing token wait next to a sibling?"""
    first: dict = {}
    for k, h in enumerate(exp.hashes):
        first.setdefault(h, k)
    tops = [h for h in missing if exp.valid[h] == exp.genesis or exp.valid[h] in present]
    for m in tops:
        p = exp.valid[m]
        if p == exp.genesis:
            continue
        connect_time = max(first[a] for a in exp.ancestors(p))
        for s, sp in exp.valid.items():
            if s != m and sp == p and first[s] < connect_time and first[m] < connect_time:
                return "fork-before-parent"
    return "other"


def _extras_tag(scn: dict) -> str:
    kinds = sorted({e[0] for e in scn["extras"]})
    return "+".join(kinds) if kinds else "plain"


def _order_key(scn: dict) -> str:
    tag = _extras_tag(scn)
    if "twin" in tag:
        return f"order-dependent-result:{tag}"
    return "order-dependent-result:" + ("fork" if has_fork(tuple(scn["parents"])) else f"chain:{tag}")


def evaluate(scn: dict, order: list, memo: dict | None = None) -> dict:
    """
    One execution on the real tree.  Returns {"viol": [(key, what, order_prefix)], "outcome", "trace",
    "nontrivial", "stats"}.
    """
    memo = {} if memo is None else memo
    mat, items = scenario_items(scn)
    offered = [items[i] for i in order]
    cap, via = scn["cap"], scn["via"]
    name_of: dict = {}
    cls_of: dict = {}
    for it in items:
        h = ref.token_hash(*it.triple)
        name_of.setdefault(h, it.label)
        cls_of.setdefault(h, it.cls)
    pre = Prefixes(mat, offered)
    view = scn.get("view", "pub")
    owner_at = int(via.split(":")[1]) if via.startswith("owner:") else None
    tree = TokenTree(private_key=mat.sk) if owner_at is not None else TokenTree(public_key=mat.view_key(view))
    tree.unchained_max_size = cap
    viol: list = []
    trace: list = []
    stats = {"waited": 0}
    labels = [o.label for o in offered]
    head = (f"tree {shape_str(scn['parents'])}, waiting area {cap}, via {via}"
            + ("" if view == "pub" else f", TokenTree(public_key=<{view} key object>)") + ": ")
    step_failed = False

    def compare(k: int, exp: ref.Expect) -> None:
        """elements against the closure of what has been offered up to and including step k."""
        nonlocal step_failed
        if step_failed:
            return
        have = set(tree.elements.keys())
        bogus = have - exp.contained
        hist = labels[:k + 1]
        if bogus:
            step_failed = True
            for h in sorted(bogus):
                reason = ("never-offered" if h not in exp.hashes else
                          "bad-signature" if h not in exp.valid else "parent-not-contained")
                viol.append((f"in-elements-but-not-entitled:{cls_of.get(h, 'unknown')}:{reason}",
                             head + f"after offering {hist} elements hold {name_of.get(h, h.hex()[:8])} ({reason}); "
                             f"entitled are only {_names(exp.contained, name_of)}", order[:k + 1]))
            return
        if exp.max_waiting <= cap:
            missing = exp.contained - have
            if missing:
                step_failed = True
                cause = _cause_of_missing(offered[:k + 1], exp, have, missing)
                key = f"missing-connected-token:{cause}"
                if cause == "other" and view != "pub":
                    key += ":view-with-secret-part"
                elif cause == "other" or "twin" in _extras_tag(scn):
                    key += f":{_extras_tag(scn)}"
                waiting = {_th(t) for t in tree.unchained}
                viol.append((key, head + f"after offering {hist} elements are {_names(have, name_of)} and lack "
                             f"{_names(missing, name_of)} (waiting area holds {_names(waiting, name_of)}); every one "
                             "of them is signed by the tree key and connected to genesis through offered, signed "
                             "tokens, and the waiting area never needed more than "
                             f"{exp.max_waiting} slots", order[:k + 1]))

    def check_waiting(k: int, exp: ref.Expect) -> None:
        """the waiting area against the signed-but-unconnected tokens offered up to and including step k."""
        nonlocal step_failed
        have = set(tree.elements.keys())
        if step_failed or have != exp.contained:
            return
        waiting = {_th(t) for t in tree.unchained}
        hist = labels[:k + 1]
        if exp.max_waiting <= cap and waiting != exp.waiting:
            step_failed = True
            detail = ("holds-unsigned" if waiting - set(exp.valid) else
                      "holds-contained" if waiting & exp.contained else
                      "lost-waiting-token" if exp.waiting - waiting else "holds-unknown")
            affected = (waiting - set(exp.valid)) or (waiting & exp.contained) or (exp.waiting - waiting) or waiting
            tag = "+".join(sorted({cls_of.get(h, "unknown") for h in affected}))
            if detail == "holds-contained":
                # a contained token still listed as waiting: did it wait next to a sibling (same defect class as
                # missing-connected-token:fork-before-parent, made visible by a later duplicate)?
                c = _cause_of_missing(offered[:k + 1], exp, have - (waiting & have), waiting & have)
                tag = c if c != "other" else tag
            viol.append((f"waiting-area-mismatch:{detail}:{tag}",
                         head + f"after offering {hist} the waiting area holds {_names(waiting, name_of)}, the signed-"
                         f"but-unconnected offered tokens are {_names(exp.waiting, name_of)}, and never more than "
                         f"{exp.max_waiting} distinct tokens had to wait", order[:k + 1]))
        elif exp.max_waiting > cap and (waiting - set(exp.valid)):
            step_failed = True
            tag = "+".join(sorted({cls_of.get(h, "unknown") for h in waiting - set(exp.valid)}))
            viol.append((f"waiting-area-mismatch:holds-unsigned:{tag}",
                         head + f"after offering {hist} the waiting area holds "
                         f"{_names(waiting - set(exp.valid), name_of)}", order[:k + 1]))


    if via == "gather" or owner_at is not None:
        for k, it in enumerate(offered):
            tok = make_token(it, mat)
            before_wait = len(tree.unchained)
            try:
                parent_here = it.prev == tree.genesis_hash or it.prev in tree.elements
                if order[k] == owner_at and it.cls == "tree" and parent_here:
                    # the owner (tree built from its private key) creates this very token again locally - signatures
                    # of this curve are deterministic, so it is the same token its peers hold - instead of being
                    # offered it; children of it that arrived earlier are waiting for it
                    after = None if it.prev == tree.genesis_hash else tree.elements[it.prev]
                    r = (tree.add(it.content, after) if it.content is not None else tree.add_by_hash(it.chash, after))
                    if _th(r) != ref.token_hash(*it.triple):
                        return {"viol": [], "outcome": None, "trace": ("owner-recreate-differs",), "nontrivial": False,
                                "stats": stats, "overflow": 0}
                    stats["recreated"] = stats.get("recreated", 0) + 1
                else:
                    r = tree.gather_token(tok)
            except Exception as e:  # noqa: BLE001
                viol.append((f"exception:gather_token:{type(e).__name__}:{it.cls}",
                             head + f"gather_token({it.label}) after {labels[:k]} raised {type(e).__name__}: {e}",
                             order[:k + 1]))
                r = None
            exp = pre.steps[k]
            if r is not None:
                if exp.hashes[k] not in exp.contained:
                    viol.append((f"gather-accepts-unentitled:{it.cls}",
                                 head + f"gather_token({it.label}) after {labels[:k]} returned a token although "
                                 f"{it.label} is not signed-and-connected", order[:k + 1]))
                elif _th(r) != exp.hashes[k]:
                    viol.append(("gather-returns-other-token",
                                 head + f"gather_token({it.label}) returned {name_of.get(_th(r))}", order[:k + 1]))
            if len(tree.unchained) > before_wait:
                stats["waited"] += 1
            if len(tree.unchained) > cap:
                viol.append(("waiting-area-exceeds-bound", head + f"{len(tree.unchained)} waiting after "
                             f"{labels[:k + 1]}", order[:k + 1]))
            trace.append((r is not None, len(tree.elements), len(tree.unchained)))
            compare(k, exp)
            check_waiting(k, exp)
        ret = None
    else:
        data = b"".join(o.wire for o in offered)
        try:
            ret = tree.unserialize_public(data)
        except Exception as e:  # noqa: BLE001
            viol.append((f"exception:unserialize_public:whole-chunks:{type(e).__name__}",
                         head + f"unserialize_public of the {len(offered)} chunks {labels} raised "
                         f"{type(e).__name__}: {e}", list(order)))
            ret = None
        trace.append((ret, len(tree.elements), len(tree.unchained)))
        if offered:
            compare(len(offered) - 1, pre.final)
        if ret is True and not set(pre.final.hashes) <= set(tree.elements.keys()):
            viol.append(("unserialize_public-confirms-rejected-token",
                         head + f"unserialize_public({labels}) returned True but elements are "
                         f"{_names(tree.elements.keys(), name_of)}", list(order)))

    exp = pre.final
    have = set(tree.elements.keys())
    waiting = {_th(t) for t in tree.unchained}
    overflow = exp.max_waiting > cap
    full = list(order)

    # elements is keyed by the identity of what it stores
    for k_, t in tree.elements.items():
        if k_ != _th(t):
            viol.append(("elements-key-mismatch", head + f"elements[{k_.hex()[:8]}] stores {name_of.get(_th(t))}", full))

    if via != "gather" and owner_at is None:
        check_waiting(len(offered) - 1, exp)      # gather mode did this after every arrival

    # verify / get_root_path: only read ``elements`` and the token, so once per reached element set is enough
    vkey = ("verify", id(mat), tuple(map(tuple, scn["extras"])), frozenset(order), frozenset(have))
    if vkey not in memo:
        memo[vkey] = True
        for it in offered:
            h = ref.token_hash(*it.triple)
            tok = make_token(it, mat)
            try:
                v = tree.verify(tok)
                path = tree.get_root_path(tok)
            except Exception as e:  # noqa: BLE001
                viol.append((f"exception:verify:{type(e).__name__}:{it.cls}",
                             head + f"verify/get_root_path({it.label}) raised {type(e).__name__}: {e}", full))
                continue
            if h not in exp.contained:
                if v:
                    viol.append((f"verify-reports-unentitled:{it.cls}", head + f"after {labels}, verify({it.label}) "
                                 "is True although the token is not signed-and-connected", full))
                if path:
                    viol.append((f"root-path-reports-unentitled:{it.cls}", head + f"after {labels}, "
                                 f"get_root_path({it.label}) = {[name_of.get(_th(p)) for p in path]}", full))
            elif have == exp.contained:
                if not v:
                    viol.append(("verify-denies-contained", head + f"after {labels}, verify({it.label}) is False "
                                 "for a contained token", full))
                if [_th(p) for p in path] != exp.ancestors(h):
                    viol.append(("root-path-wrong", head + f"after {labels}, get_root_path({it.label}) = "
                                 f"{[name_of.get(_th(p)) for p in path]}, chain to genesis is "
                                 f"{[name_of.get(a) for a in exp.ancestors(h)]}", full))

    # public serialisation of the reached tree reloads to the same tree
    try:
        dump = tree.serialize_public()
    except Exception as e:  # noqa: BLE001
        viol.append((f"exception:serialize_public:{type(e).__name__}", head + f"after {labels}: {e}", full))
        dump = None
    if dump is not None and ("dump", id(mat), dump) not in memo:
        memo[("dump", id(mat), dump)] = True
        stats["reloads"] = 1
        chunks = [dump[i:i + mat.chunk] for i in range(0, len(dump), mat.chunk)]
        if len(dump) != mat.chunk * len(have) or {sha3_256(c).digest() for c in chunks} != have:
            viol.append(("dump-content-wrong", head + f"after {labels}, serialize_public() is {len(dump)} bytes and "
                         "does not consist of exactly the contained tokens", full))
        else:
            fresh = TokenTree(public_key=mat.view_key(view))
            try:
                ok = fresh.unserialize_public(dump)
            except Exception as e:  # noqa: BLE001
                ok = f"raised {type(e).__name__}"
            if set(fresh.elements.keys()) != have:
                viol.append(("reload-differs:dump-order", head + f"after {labels}, the dump of "
                             f"{_names(have, name_of)} reloads to {_names(fresh.elements.keys(), name_of)}", full))
            elif ok is not True:
                viol.append(("reload-not-confirmed:dump-order", head + f"after {labels}, reloading the tree's own "
                             f"dump gave {ok!r}", full))

    # serialize_public(up_to=...) only reads ``elements``: once per reached element set
    ukey = ("upto", id(mat), frozenset(have))
    if dump is not None and have == exp.contained and ukey not in memo:
        memo[ukey] = True
        for h in sorted(have):
            want = exp.ancestors(h)
            try:
                part = tree.serialize_public(up_to=tree.elements[h])
            except Exception as e:  # noqa: BLE001
                viol.append((f"exception:serialize_public:{type(e).__name__}", head + f"up_to: {e}", full))
                continue
            got = [sha3_256(part[i:i + mat.chunk]).digest() for i in range(0, len(part), mat.chunk)]
            if got != want:
                viol.append(("dump-up_to-wrong", head + f"after {labels}, serialize_public(up_to="
                             f"{name_of.get(h)}) holds {[name_of.get(g) for g in got]}, the root path is "
                             f"{[name_of.get(a) for a in want]}", full))
                continue
            fresh2 = TokenTree(public_key=mat.view_key(view))
            try:
                fresh2.unserialize_public(part)
            except Exception:  # noqa: BLE001, S110
                pass
            if set(fresh2.elements.keys()) != set(want):
                viol.append(("reload-differs:up_to", head + f"after {labels}, the dump up to "
                             f"{name_of.get(h)} reloads to {_names(fresh2.elements.keys(), name_of)}", full))

    # content binding: whatever is attached hashes to the pointer; a wrong offer is refused
    right = {ref.token_hash(*it.triple): it.right_content for it in items if it.right_content is not None}
    stats["content_attached"] = 0
    stats["correct_content_refused"] = 0
    for h, t in tree.elements.items():
        if t.content is not None:
            stats["content_attached"] += 1
            if sha3_256(t.content).digest() != t.content_hash:
                viol.append(("wrong-content-attached:gather", head + f"after {labels}, {name_of.get(h)} carries "
                             f"content {t.content!r} that does not hash to its content pointer", full))
                continue
        before = t.content
        try:
            took = t.receive_content(WRONG_PROBE)
        except Exception as e:  # noqa: BLE001
            viol.append((f"exception:receive_content:{type(e).__name__}", head + str(e), full))
            continue
        if took or t.content != before:
            viol.append(("wrong-content-attached:receive_content", head + f"{name_of.get(h)}.receive_content(wrong "
                         f"bytes) returned {took!r} and content is now {t.content!r}", full))
        elif h in right and not (t.receive_content(right[h]) and t.content == right[h]):
            stats["correct_content_refused"] += 1     # not demanded by the statement ("only if"): counted, not flagged

    idx_of: dict = {}
    for i, it in enumerate(items):
        idx_of.setdefault(ref.token_hash(*it.triple), i)
    outcome = None
    if not overflow:
        outcome = (tuple(sorted(idx_of.get(h, -1) for h in have)), tuple(sorted(idx_of.get(h, -1) for h in waiting)))
    nontrivial = stats["waited"] > 0 or len(items) > len(scn["parents"]) or via == "wire"
    tr = (scn["family"], via, cap, overflow, tuple(sorted(o.cls for o in offered if o.cls != "tree")), tuple(trace))
    return {"viol": viol, "outcome": outcome, "trace": tr, "nontrivial": nontrivial, "stats": stats,
            "overflow": overflow}


# ------------------------------------------------------------------------------------------------
# byte-level family: prefixes and single-byte substitutions of a genuine dump
# ------------------------------------------------------------------------------------------------

def subst_values(orig: int, thorough: bool) -> list[int]:
    if thorough:
        return [(orig + 1 + j) % 256 for j in range(255)]
    return [orig ^ m for m in (1, 2, 4, 8, 16, 32, 64, 128, 255)]


def mutate(dump: bytes, mutation: list, thorough_values: bool) -> bytes:
    if mutation[0] == "prefix":
        return dump[:mutation[1]]
    _, pos, j = mutation
    return dump[:pos] + bytes([subst_values(dump[pos], thorough_values)[j]]) + dump[pos + 1:]


def evaluate_bytes(scn: dict, mutation: list) -> dict:
    mat, items = scenario_items(scn)
    data = mutate(mat.dump, mutation, bool(scn.get("all_values")))
    name_of = {ref.token_hash(*it.triple): it.label for it in items}
    tree = TokenTree(public_key=mat.pub)
    viol: list = []
    exc = None
    ret = None
    try:
        ret = tree.unserialize_public(data)
    except Exception as e:  # noqa: BLE001
        exc = type(e).__name__
    whole = len(data) // mat.chunk
    aligned = len(data) % mat.chunk == 0
    offered = []
    for i in range(whole):
        c = data[i * mat.chunk:(i + 1) * mat.chunk]
        offered.append((c[:32], c[32:64], c[64:]))
    exp = ref.Expect(mat.pub_bin, offered)
    have = set(tree.elements.keys())
    head = f"dump of tree {shape_str(scn['parents'])} ({len(mat.dump)} bytes, chunk {mat.chunk}) with {mutation}: "
    rp = {"check": "bytes", "scenario": scn, "mutation": mutation}
    for h in sorted(have - exp.contained):
        reason = ("never-offered" if h not in exp.hashes else
                  "bad-signature" if h not in exp.valid else "parent-not-contained")
        viol.append((f"bytes:in-elements-but-not-entitled:{reason}", head + f"elements hold "
                     f"{name_of.get(h, h.hex()[:8])} ({reason})", rp))
    if any(k != _th(t) for k, t in tree.elements.items()):
        viol.append(("elements-key-mismatch", head + "elements keyed by something else than the token identity", rp))
    if aligned:
        if exc is not None:
            viol.append((f"exception:unserialize_public:whole-chunks:{exc}", head + f"raised {exc} on input made of "
                         f"{whole} whole chunks", rp))
        elif exp.contained - have:
            viol.append(("bytes:missing-connected-token", head + f"elements lack "
                         f"{_names(exp.contained - have, name_of)}", rp))
    if ret is True:
        if not aligned:
            viol.append(("unserialize_public-confirms-truncated", head + "returned True for input that ends inside a "
                         "chunk", rp))
        elif not set(exp.hashes) <= have:
            viol.append(("unserialize_public-confirms-rejected-token", head + "returned True although elements are "
                         f"only {_names(have, name_of)}", rp))
    if (aligned and exc is None and ret is not True and mutation[0] == "prefix"
            and set(exp.hashes) == exp.contained == have):
        viol.append(("reload-not-confirmed:dump-order", head + f"returned {ret!r} for a clean prefix of whole, valid "
                     "chunks in parent-first order", rp))
    trace = ("bytes", mutation[0], aligned, exc, ret, len(have), len(tree.unchained), sum(exp.valid_flags))
    return {"viol": viol, "trace": trace, "exc": exc}


# ------------------------------------------------------------------------------------------------
# persistence family: the same offers through PseudonymManager.add_credential on a real IdentityDatabase, and a
# fresh PseudonymManager on the same database after every arrival
# ------------------------------------------------------------------------------------------------

class _WriteFault(Exception):
    """The injected failure of one token write (disk error, or the process being killed at that point)."""


def evaluate_persist(scn: dict, order: list, memo: dict | None = None, fault: tuple | None = None) -> dict:
    """fault = (k, f): the f-th token write of the k-th offer fails; the history ends there with a restart."""
    if scn.get("via") == "write-fault" and fault is None:
        # fault-free run first (it reports the number of token writes of every step), then every single write fault
        base = evaluate_persist({**scn, "via": None}, order, memo)
        writes = base["writes"]
        for k, n in enumerate(writes):
            for f in range(1, n + 1):
                r = evaluate_persist(scn, order, memo, fault=(k, f))
                base["viol"] += r["viol"]
                base["stats"]["reloads"] = base["stats"].get("reloads", 0) + 1
        return base
    mat, items = scenario_items(scn)
    offered = [items[i] for i in order]
    cap = scn["cap"]
    name_of: dict = {}
    cls_of: dict = {}
    for it in items:
        h = ref.token_hash(*it.triple)
        name_of.setdefault(h, it.label)
        cls_of.setdefault(h, it.cls)
    pre = Prefixes(mat, offered)
    labels = [o.label for o in offered]
    head = f"tree {shape_str(scn['parents'])}, add_credential on a shared IdentityDatabase, waiting area {cap}: "
    viol: list = []
    trace: list = []
    waited = 0
    failed = incomplete = False          # safety findings and completeness findings are reported independently
    subst = scn.get("via") == "substantiate"
    if subst:
        head = head.replace("add_credential on a shared IdentityDatabase", "IdentityManager.substantiate, one token per call")
    if subst:
        from ipv8.attestation.identity.manager import IdentityManager  # noqa: PLC0415
        im = IdentityManager(":memory:")
        db = im.database
    else:
        db = IdentityDatabase(":memory:")
        db.open()
    try:
        pm = im.get_pseudonym(mat.pub) if subst else PseudonymManager(db, public_key=mat.pub)
        pm.tree.unchained_max_size = cap
        writes: list = []
        real_insert = db.insert_token
        counter = [0, None]

        def counted_insert(*a, **kw):  # noqa: ANN002, ANN003, ANN202
            counter[0] += 1
            if counter[1] is not None and counter[0] == counter[1]:
                raise _WriteFault
            return real_insert(*a, **kw)
        db.insert_token = counted_insert
        for k, it in enumerate(offered):
            tok = make_token(it, mat)
            before_wait = len(pm.tree.unchained)
            counter[0], counter[1] = 0, (fault[1] if fault is not None and fault[0] == k else None)
            died = False
            try:
                if subst:
                    # a peer discloses this one token of the pseudonym (no metadata, no attestations)
                    im.substantiate(mat.pub, b"", it.wire, b"", b"")
                else:
                    pm.add_credential(tok, mat.dummy_md)
            except _WriteFault:
                died = True
            except Exception as e:  # noqa: BLE001
                viol.append((f"exception:add_credential:{type(e).__name__}:{it.cls}",
                             head + f"add_credential({it.label}) after {labels[:k]} raised {type(e).__name__}: {e}",
                             order[:k + 1]))
            waited += len(pm.tree.unchained) > before_wait
            writes.append(counter[0])
            if fault is not None and not died:
                continue                 # before the fault: the fault-free run has judged these steps already
            exp = pre.steps[k]
            again = PseudonymManager(db, public_key=mat.pub)        # "restart": the untouched loader reads the rows
            stored = again.tree.elements
            have = set(stored.keys())
            trace.append((len(pm.tree.elements), len(pm.tree.unchained), len(have)))
            if failed:
                continue
            hist, pfx = labels[:k + 1], order[:k + 1]
            if any(k_ != _th(t) for k_, t in stored.items()):
                viol.append(("elements-key-mismatch", head + f"after {hist} and a reload", pfx))
                failed = True
            for h in sorted(have - exp.contained):
                reason = ("never-offered" if h not in exp.hashes else
                          "bad-signature" if h not in exp.valid else "parent-not-contained")
                viol.append((f"persisted-tree-holds-unentitled:{cls_of.get(h, 'unknown')}:{reason}",
                             head + f"after offering {hist}, a fresh PseudonymManager on the same database reports "
                             f"{name_of.get(h, h.hex()[:8])} ({reason}) in tree.elements; entitled are only "
                             f"{_names(exp.contained, name_of)}", pfx))
                failed = True
            loose = {h for h in have & exp.contained
                     if stored[h].previous_token_hash != exp.genesis and stored[h].previous_token_hash not in have}
            if loose:
                failed = True
                viol.append(("persisted-tree-holds-unconnected-token:" + "+".join(sorted({cls_of[h] for h in loose})),
                             head + f"after offering {hist}, a fresh PseudonymManager on the same database has "
                             f"tree.elements = {_names(have, name_of)}: {_names(loose, name_of)} has no path to genesis "
                             f"there (get_root_path: {[bool(again.tree.get_root_path(stored[h])) for h in sorted(loose)]}"
                             f"); the live tree held {_names(pm.tree.elements.keys(), name_of)}", pfx))
            missing = exp.contained - have
            if subst or died:
                missing = set()      # substantiate keeps disclosed tokens in memory only: completeness is not demanded;
                #                      nor is it after a write that failed
            if died:
                viol[:] = [(key.replace("persisted-tree-", "persisted-tree-after-failed-write-"), what.replace(
                    "after offering", f"the token write number {fault[1]} of the last offer failed; after offering"), px)
                    for key, what, px in viol]
                break
            if missing and exp.max_waiting <= cap and not incomplete:
                incomplete = True
                first: dict = {}
                for j, h in enumerate(exp.hashes):
                    first.setdefault(h, j)
                woken = all(exp.valid[m] != exp.genesis and
                            first[m] < max(first[a] for a in exp.ancestors(exp.valid[m]))
                            for m in missing if exp.valid[m] == exp.genesis or exp.valid[m] in have)
                viol.append(("persisted-tree-lacks-connected-token:" + ("chained-in-after-waiting" if woken else "other"),
                             head + f"after offering {hist}, a fresh PseudonymManager on the same database has "
                             f"tree.elements = {_names(have, name_of)} and lacks {_names(missing, name_of)}, which the "
                             f"live tree holds ({_names(pm.tree.elements.keys(), name_of)}) and which are signed and "
                             "connected", pfx))
            for h, t in stored.items():
                if t.content is not None and sha3_256(t.content).digest() != t.content_hash:
                    failed = True
                    viol.append(("wrong-content-attached:persisted", head + f"after {hist}, reloaded "
                                 f"{name_of.get(h)} carries {t.content!r}", pfx))
    finally:
        db.close()
    tr = ("persist", cap, tuple(sorted(o.cls for o in offered if o.cls != "tree")), tuple(trace))
    return {"viol": viol, "outcome": None, "trace": tr, "writes": writes, "nontrivial": waited > 0 or len(items) > len(scn["parents"]),
            "stats": {"waited": waited, "content_attached": 0, "correct_content_refused": 0}, "overflow": False}


# ------------------------------------------------------------------------------------------------
# depth family: one long chain (plus a one-token side branch) around the depth constants of tree.py
# (verify / get_root_path maxdepth = 1000, unchained_max_size = 100)
# ------------------------------------------------------------------------------------------------

def evaluate_depth(scn: dict) -> dict:
    L, curve = scn["length"], scn["curve"]
    sk = fixtures.private_key(scn["owner"], curve)
    pub = sk.pub()
    chunk = 64 + pub.get_signature_length()
    scratch = TokenTree(private_key=sk)
    toks: list = []
    last = None
    for i in range(L):
        last = scratch.add(b"c16 deep %d" % i, last)
        toks.append(last)
    side = scratch.add(b"c16 side branch", toks[0])
    wires = [t.get_plaintext_signed() for t in toks]
    chain = [sha3_256(w).digest() for w in wires]                    # root .. tip
    side_h = sha3_256(side.get_plaintext_signed()).digest()
    want_path = chain[::-1]                                          # tip .. root
    viol: list = []
    ops = 0
    stats: dict = {}
    head = f"chain of {L} tokens ({curve}) with a one-token side branch: "
    rp = {"check": "depth", "scenario": scn}

    def bad(key: str, what: str) -> None:
        viol.append((key, head + what, rp))

    def hashes_of(data: bytes) -> list:
        return [sha3_256(data[i:i + chunk]).digest() for i in range(0, len(data), chunk)]

    viewer = TokenTree(public_key=pub)
    for w in [*wires, side.get_plaintext_signed()]:
        viewer.gather_token(Token.unserialize(w, pub))
    ops += 1
    if set(viewer.elements.keys()) != set(chain) | {side_h}:
        bad("depth:elements-mismatch", f"a viewer offered the tokens root-first holds {len(viewer.elements)} of {L + 1}")
        return {"viol": viol, "ops": ops, "trace": ("depth", L, curve, "viewer-broken"), "stats": stats}
    tip = viewer.elements[chain[-1]]

    part = None
    for who, tr in (("owner", scratch), ("viewer", viewer)):
        ops += 1
        try:
            data = tr.serialize_public(up_to=tr.elements[chain[-1]])
        except Exception as e:  # noqa: BLE001
            bad(f"exception:serialize_public:{type(e).__name__}", f"{who}.serialize_public(up_to=tip): {e}")
            continue
        if hashes_of(data) != want_path or len(data) != L * chunk:
            bad("depth:dump-up_to-wrong", f"{who}.serialize_public(up_to=tip) is {len(data)} bytes = "
                f"{len(data) / chunk:g} tokens; the branch of the tip has {L}")
        elif who == "viewer":
            part = data
    if part is not None:
        ops += 1
        fresh = TokenTree(public_key=pub)
        root_first = b"".join(part[i:i + chunk] for i in range(len(part) - chunk, -1, -chunk))
        try:
            ok = fresh.unserialize_public(root_first)
        except Exception as e:  # noqa: BLE001
            ok = f"raised {type(e).__name__}"
        if set(fresh.elements.keys()) != set(chain):
            bad("depth:reload-differs:up_to", f"the branch dump handed over root-first reloads to "
                f"{len(fresh.elements)} of {L} tokens")
        elif ok is not True:
            bad("depth:reload-not-confirmed:up_to", f"reloading the branch dump root-first gave {ok!r}")
        if L - 1 <= 2 * viewer.unchained_max_size + 2:
            # as dumped (tip first): everything but the root has to wait; complete only while L - 1 fits the area
            ops += 1
            fresh = TokenTree(public_key=pub)
            try:
                fresh.unserialize_public(part)
            except Exception as e:  # noqa: BLE001
                bad(f"exception:unserialize_public:whole-chunks:{type(e).__name__}", f"tip-first reload: {e}")
            got = set(fresh.elements.keys())
            closed = all(t.previous_token_hash == fresh.genesis_hash or t.previous_token_hash in got
                         for t in fresh.elements.values())
            if not got <= set(chain) or not closed:
                bad("depth:reload-unsafe:up_to-tip-first", f"tip-first reload holds {len(got)} tokens, not a connected "
                    "part of the branch")
            elif L - 1 <= fresh.unchained_max_size and got != set(chain):
                bad("depth:reload-differs:up_to-tip-first", f"tip-first reload holds {len(got)} of {L} tokens although "
                    f"only {L - 1} <= {fresh.unchained_max_size} tokens had to wait")
            stats[f"tip_first_reload_L{L}"] = len(got)
    ops += 1
    full = viewer.serialize_public()
    fresh = TokenTree(public_key=pub)
    try:
        ok = fresh.unserialize_public(full)
    except Exception as e:  # noqa: BLE001
        ok = f"raised {type(e).__name__}"
    if set(fresh.elements.keys()) != set(viewer.elements.keys()) or ok is not True:
        bad("depth:reload-differs:dump-order", f"the full dump reloads to {len(fresh.elements)} of {L + 1} tokens "
            f"(returned {ok!r})")

    # root path / verify with an explicit bound above the depth, and with the default bound where it is documented
    # to suffice (fewer than maxdepth = 1000 steps, i.e. L <= 1000); beyond that the documented answer is [] / False
    ops += 2
    big = L + 5
    if [_th(t) for t in viewer.get_root_path(tip, maxdepth=big)] != want_path:
        bad("depth:root-path-wrong:explicit-bound", f"get_root_path(tip, maxdepth={big}) is not the chain to genesis")
    if not viewer.verify(tip, maxdepth=big):
        bad("depth:verify-denies-contained:explicit-bound", f"verify(tip, maxdepth={big}) is False")
    d_path, d_ver = viewer.get_root_path(tip), viewer.verify(tip)
    stats[f"default_maxdepth_L{L}"] = [len(d_path), bool(d_ver)]
    if L <= 1000:
        if [_th(t) for t in d_path] != want_path:
            bad("depth:root-path-wrong:default-bound", f"get_root_path(tip) has {len(d_path)} tokens")
        if not d_ver:
            bad("depth:verify-denies-contained:default-bound", "verify(tip) is False")
    elif d_path and [_th(t) for t in d_path] != want_path:
        bad("depth:root-path-wrong:default-bound", f"get_root_path(tip) returned {len(d_path)} tokens that are not the chain")
    ops += 1
    forged = Token.unserialize(wires[-1][:-1] + bytes([wires[-1][-1] ^ 1]), pub)
    if viewer.verify(forged, maxdepth=big) or viewer.get_root_path(forged, maxdepth=big):
        bad("depth:reports-unentitled:badsig", "verify/get_root_path accept a forged copy of the tip")
    trace = ("depth", L, curve, repr(sorted(stats.items())), len(viol))
    return {"viol": viol, "ops": ops, "trace": trace, "stats": stats}


# ------------------------------------------------------------------------------------------------
# work items (forked workers inherit SCENARIOS and the material cache)
# ------------------------------------------------------------------------------------------------

SCENARIOS: list[dict] = []


def _nth_perms(m: int, lo: int, hi: int):  # noqa: ANN202
    return itertools.islice(itertools.permutations(range(m)), lo, hi)


def _work(chunk: list) -> list:
    out = []
    memo: dict = {}
    for w in chunk:
        sid = w[0]
        scn = SCENARIOS[sid]
        res = {"sid": sid, "evals": 0, "nontrivial": 0, "traces": set(), "viol": {}, "outcomes": {}, "exc": {},
               "overflow": 0, "reloads": 0, "content_attached": 0, "correct_content_refused": 0, "waited": 0}
        if scn["family"] == "bytes":
            _, kind, lo, hi = w
            nvals = 255 if scn.get("all_values") else 9
            full_len = len(scenario_items(scn)[0].dump)
            for m in range(lo, hi):
                mutation = ["prefix", m] if kind == "prefix" else ["subst", m // nvals, m % nvals]
                r = evaluate_bytes(scn, mutation)
                res["evals"] += 1
                if not (kind == "prefix" and m == full_len):
                    res["nontrivial"] += 1
                    res["traces"].add(r["trace"])
                if r["exc"]:
                    res["exc"][r["exc"]] = res["exc"].get(r["exc"], 0) + 1
                for key, what, rp in r["viol"]:
                    rank = (len(scn["parents"]), sid, m)
                    if key not in res["viol"] or rank < res["viol"][key][0]:
                        res["viol"][key] = (rank, what, rp)
        elif scn["family"] == "depth":
            r = evaluate_depth(scn)
            res["evals"] += r["ops"]
            res["nontrivial"] += r["ops"]
            res["traces"].add(r["trace"])
            res["depth_stats"] = r["stats"]
            for key, what, rp in r["viol"]:
                rank = (scn["length"], sid, 0)
                if key not in res["viol"] or rank < res["viol"][key][0]:
                    res["viol"][key] = (rank, what, rp)
        else:
            _, lo, hi = w
            _, items = scenario_items(scn)
            persist = scn["family"].startswith("persist")
            for pi, perm in enumerate(_nth_perms(len(items), lo, hi), start=lo):
                order = list(perm)
                r = (evaluate_persist if persist else evaluate)(scn, order, memo)
                res["evals"] += 1
                res["overflow"] += r["overflow"]
                res["waited"] += r["stats"]["waited"] > 0
                res["reloads"] += r["stats"].get("reloads", 0)
                res["content_attached"] += r["stats"]["content_attached"]
                res["correct_content_refused"] += r["stats"]["correct_content_refused"]
                if r["nontrivial"]:
                    res["nontrivial"] += 1
                    res["traces"].add(r["trace"])
                if r["outcome"] is not None and r["outcome"] not in res["outcomes"]:
                    res["outcomes"][r["outcome"]] = (pi, order)
                for key, what, pre in r["viol"]:
                    rank = (len(pre), len(items), sid, pi)
                    if key not in res["viol"] or rank < res["viol"][key][0]:
                        res["viol"][key] = (rank, what, {"check": "persist" if persist else "single",
                                                         "scenario": scn, "order": pre})
        out.append(res)
    return out


# ------------------------------------------------------------------------------------------------
# the bounded space
# ------------------------------------------------------------------------------------------------

def build_scenarios(ctx: core.Ctx) -> tuple[list[dict], dict]:
    owner, foreign = fixtures.rotate(ctx.seed, 2)
    T = ctx.thorough
    cv = "curve25519"
    scns: list = []
    b: dict = {}

    def shapes(lab_max: int, unlab_max: int) -> list[tuple]:
        out = []
        for n in range(1, lab_max + 1):
            out += labelled_shapes(n)
        for n in range(lab_max + 1, unlab_max + 1):
            out += unlabelled_shapes(n)
        return out

    # A: every shape x every arrival order, Token objects
    b["perm_gather"] = {"labelled_n_max": 6 if T else 5, "unlabelled_n_max": 7 if T else 5}
    for p in shapes(*b["perm_gather"].values()):
        scns.append(scenario("perm", cv, owner, foreign, p))
    # A2: the owner's own tree (private key): one token of the tree is not offered but created again locally by the owner
    # (add / add_by_hash) once its parent is contained - every shape x every order x every position
    b["owner_recreates"] = {"labelled_n_max": 5 if T else 4}
    for n in range(2, b["owner_recreates"]["labelled_n_max"] + 1):
        for p in labelled_shapes(n):
            for j in range(n):
                scns.append(scenario("owner-recreates", cv, owner, foreign, p, via=f"owner:{j}"))
    # B: the same through the wire form (this includes every dump order and its reverse)
    b["perm_wire"] = {"labelled_n_max": 5 if T else 4, "unlabelled_n_max": 6 if T else 5}
    for p in shapes(*b["perm_wire"].values()):
        scns.append(scenario("perm-wire", cv, owner, foreign, p, via="wire"))
    # D: one intruder at every position of every order
    b["intruder"] = {"unlabelled_n_max": 5 if T else 4, "two_token_intruders_n_max": 4 if T else 3}
    for n in range(1, b["intruder"]["unlabelled_n_max"] + 1):
        for p in unlabelled_shapes(n):
            for e in extras_for(p):
                if (e[0], e[2]) in TWO_ITEM and n > b["intruder"]["two_token_intruders_n_max"]:
                    continue
                scns.append(scenario("intruder", cv, owner, foreign, p, [e]))
    # E: two intruders
    b["intruder_pairs"] = {"unlabelled_n_max": 3 if T else 2, "two_token_intruders_n_max": 2}
    for n in range(1, b["intruder_pairs"]["unlabelled_n_max"] + 1):
        for p in unlabelled_shapes(n):
            for e1, e2 in itertools.combinations(extras_for(p), 2):
                if n == 3 and ((e1[0], e1[2]) in TWO_ITEM or (e2[0], e2[2]) in TWO_ITEM):
                    continue
                scns.append(scenario("intruder-pair", cv, owner, foreign, p, [e1, e2]))
    # F: intruders through the wire form
    b["intruder_wire"] = {"unlabelled_n_max": 4 if T else 3}
    for n in range(1, b["intruder_wire"]["unlabelled_n_max"] + 1):
        for p in unlabelled_shapes(n):
            for e in extras_for(p):
                if (e[0], e[2]) in TWO_ITEM and n > 3:
                    continue
                scns.append(scenario("intruder-wire", cv, owner, foreign, p, [e], via="wire"))
    # C: waiting area of 2
    b["cap2"] = {"unlabelled_n_max": 6 if T else 5, "with_one_intruder_n_max": 3 if T else 2}
    for p in shapes(0, b["cap2"]["unlabelled_n_max"]):
        scns.append(scenario("cap2", cv, owner, foreign, p, cap=2))
    for n in range(1, b["cap2"]["with_one_intruder_n_max"] + 1):
        for p in unlabelled_shapes(n):
            for e in extras_for(p):
                scns.append(scenario("cap2-intruder", cv, owner, foreign, p, [e], cap=2))
    # C': a duplicate of a token that is already waiting, with the waiting area at 1, 2 or 3 slots: all orders of
    # (shape + one duplicate) contain every "fill the area exactly, repeat one waiting token (bare / with content),
    # then deliver the missing ancestors in any order" history; distinct waiting tokens never exceed the bound there
    b["cap_dup"] = {"capacities": [1, 2, 3], "unlabelled_n_max": 5 if T else 4}
    for c in b["cap_dup"]["capacities"]:
        for n in range(1, b["cap_dup"]["unlabelled_n_max"] + 1):
            if c == 2 and n <= b["cap2"]["with_one_intruder_n_max"]:
                continue        # already in cap2-intruder
            for p in unlabelled_shapes(n):
                for t in range(n):
                    for var in ("bare", "content"):
                        scns.append(scenario("cap-dup", cv, owner, foreign, p, [("dup", t, var)], cap=c))
    # D': tokens of another key whose very object already passed a check under its real key
    b["foreign_primed"] = {"unlabelled_n_max": 4 if T else 3, "primed_by": ["Token.verify(real key)",
                                                                              "gather_token on the real owner's tree"]}
    for n in range(1, b["foreign_primed"]["unlabelled_n_max"] + 1):
        for p in unlabelled_shapes(n):
            for e in primed_foreign_for(p):
                scns.append(scenario("foreign-primed", cv, owner, foreign, p, [e]))
    # G: owner keys of every other curve family (other signature / chunk lengths, randomised ECDSA signatures)
    b["other_curves"] = {"curves": ECDSA_CURVES, "labelled_n_max": 4 if T else 3,
                         "intruder_curves": ["very-low", "medium"] if T else ["very-low"], "intruder_n_max": 2}
    for curve in b["other_curves"]["curves"]:
        o2, f2 = fixtures.rotate(ctx.seed, 2, curve)
        for p in shapes(b["other_curves"]["labelled_n_max"], 0):
            scns.append(scenario("curve", curve, o2, f2, p))
            scns.append(scenario("curve-wire", curve, o2, f2, p, via="wire"))
        if curve not in b["other_curves"]["intruder_curves"]:
            continue
        for n in range(1, b["other_curves"]["intruder_n_max"] + 1):
            for p in unlabelled_shapes(n):
                for e in extras_for(p):
                    scns.append(scenario("curve-intruder", curve, o2, f2, p, [e]))
    # G'': the key handed to TokenTree(public_key=...) still carries its secret part (legal: a private key object
    # is-a PublicKey); same owner, so the same closure is expected
    b["view_with_secret_part"] = {"views": ["secret", "secret-reloaded"], "curves": [cv, "very-low"],
                                  "labelled_n_max": 4 if T else 3, "intruder_n_max": 3 if T else 2}
    for curve in b["view_with_secret_part"]["curves"]:
        o2, f2 = fixtures.rotate(ctx.seed, 2, curve)
        for view in b["view_with_secret_part"]["views"]:
            for p in shapes(b["view_with_secret_part"]["labelled_n_max"], 0):
                for via in ("gather", "wire"):
                    sc = scenario("view-secret", curve, o2, f2, p, via=via)
                    sc["view"] = view
                    scns.append(sc)
            for n in range(1, b["view_with_secret_part"]["intruder_n_max"] + 1):
                for p in unlabelled_shapes(n):
                    for e in extras_for(p):
                        sc = scenario("view-secret-intruder", curve, o2, f2, p, [e])
                        sc["view"] = view
                        scns.append(sc)
    # G': twins - the same (parent, content) signed twice by the owner under a randomised-signature key gives two
    # distinct valid tokens; either may have children; all orders, both entry points
    b["twins"] = {"n_max_per_curve": ({"very-low": 4, "low": 4, "medium": 3, "high": 3} if T else
                                      {"very-low": 3, "low": 2, "medium": 2, "high": 2})}
    for curve, nmax in b["twins"]["n_max_per_curve"].items():
        o2, f2 = fixtures.rotate(ctx.seed, 2, curve)
        for n in range(1, nmax + 1):
            for p in unlabelled_shapes(n):
                for e in twins_for(p):
                    scns.append(scenario("twin", curve, o2, f2, p, [e]))
                    if e[2] == "":
                        scns.append(scenario("twin-wire", curve, o2, f2, p, [e], via="wire"))
    # P: persistence round trip (PseudonymManager.add_credential -> IdentityDatabase -> fresh PseudonymManager),
    # reloaded after every arrival of every order
    b["persist"] = {"labelled_n_max": 5 if T else 4, "unlabelled_n_max": 6 if T else 5,
                    "one_intruder_n_max": 4 if T else 3, "two_token_intruders_n_max": 3 if T else 2,
                    "database": "real IdentityDatabase(':memory:'), shared by the live and the reloaded manager"}
    for p in shapes(b["persist"]["labelled_n_max"], b["persist"]["unlabelled_n_max"]):
        scns.append(scenario("persist", cv, owner, foreign, p))
    # a token write that fails (every single one of every offer of every order), then the restart
    for p in shapes(4 if T else 3, 5 if T else 4):
        scns.append(scenario("persist-write-fault", cv, owner, foreign, p, via="write-fault"))
    # the same restarts when the tokens of a (foreign) pseudonym arrive through IdentityManager.substantiate
    for p in shapes(4 if T else 3, 5 if T else 4):
        scns.append(scenario("persist-subst", cv, owner, foreign, p, via="substantiate"))
    for n in range(1, b["persist"]["one_intruder_n_max"] + 1):
        for p in unlabelled_shapes(n):
            for e in extras_for(p):
                if (e[0], e[2]) in TWO_ITEM and n > b["persist"]["two_token_intruders_n_max"]:
                    continue
                scns.append(scenario("persist-intruder", cv, owner, foreign, p, [e]))
    # Z: depth boundaries (single long chains; constants in tree.py: maxdepth = 1000, unchained_max_size = 100)
    b["depth"] = {"chain_lengths": ([1, 2, 100, 101, 102, 998, 999, 1000, 1001, 1002, 1003, 1500, 2000] if T else
                                    [1, 2, 100, 101, 102, 999, 1000, 1001, 1002]),
                  "other_curve": {"very-low": [1000, 1001]} if T else {}}
    for L in b["depth"]["chain_lengths"]:
        sc = scenario("depth", cv, owner, foreign, ())
        sc["length"] = L
        scns.append(sc)
    for curve, lengths in b["depth"]["other_curve"].items():
        for L in lengths:
            sc = scenario("depth", curve, fixtures.rotate(ctx.seed, 2, curve)[0], 0, ())
            sc["length"] = L
            scns.append(sc)
    # H: bytes
    b["bytes"] = {"labelled_n_max": 3, "substituted_values_per_byte": 255 if T else 9,
                  "other_curve_n_max": 2 if T else 1}
    for p in shapes(3, 0):
        s = scenario("bytes", cv, owner, foreign, p, via="wire")
        s["all_values"] = T
        scns.append(s)
    o2, f2 = fixtures.rotate(ctx.seed, 2, "very-low")
    for p in shapes(b["bytes"]["other_curve_n_max"], 0):
        s = scenario("bytes", "very-low", o2, f2, p, via="wire")
        s["all_values"] = T
        scns.append(s)
    scns.sort(key=lambda sc: sc["family"] != "depth")      # stable: the few long-running items start first
    return scns, b


def work_items(scns: list[dict]) -> list[tuple]:
    items: list = []
    for sid, scn in enumerate(scns):
        if scn["family"] == "depth":
            items.append((sid, 0, 1))
            continue
        mat, its = scenario_items(scn)     # builds (and caches) all key material before the workers are forked
        if scn["family"] == "bytes":
            nvals = 255 if scn.get("all_values") else 9
            items.append((sid, "prefix", 0, len(mat.dump) + 1))
            total = len(mat.dump) * nvals
            step = BLOCK * 4
            items += [(sid, "subst", lo, min(total, lo + step)) for lo in range(0, total, step)]
        else:
            total = math.factorial(len(its))
            items += [(sid, lo, min(total, lo + BLOCK)) for lo in range(0, total, BLOCK)]
    return items


def run(ctx: core.Ctx) -> core.Report:
    global SCENARIOS
    scns, bounds = build_scenarios(ctx)
    SCENARIOS = scns
    witems = work_items(scns)
    results = core.pmap(_work, witems, ctx.jobs, chunk=4)

    per_family: dict = {}
    traces: set = set()
    viol: dict = {}
    outcomes: dict = {}
    exc: dict = {}
    depth_obs: dict = {}
    tot = {"evals": 0, "nontrivial": 0, "overflow": 0, "reloads": 0, "content_attached": 0,
           "correct_content_refused": 0, "waited": 0}
    for r in results:
        fam = scns[r["sid"]]["family"]
        pf = per_family.setdefault(fam, {"scenarios": set(), "evaluations": 0, "nontrivial": 0})
        pf["scenarios"].add(r["sid"])
        pf["evaluations"] += r["evals"]
        pf["nontrivial"] += r["nontrivial"]
        for k in tot:
            tot[k] += r[k]
        traces |= r["traces"]
        depth_obs.update(r.get("depth_stats", {}))
        for k, n in r["exc"].items():
            exc[k] = exc.get(k, 0) + n
        for key, (rank, what, rp) in r["viol"].items():
            if key not in viol or rank < viol[key][0]:
                viol[key] = (rank, what, rp)
        oc = outcomes.setdefault(r["sid"], {})
        for o, (pi, order) in r["outcomes"].items():
            if o not in oc or pi < oc[o][0]:
                oc[o] = (pi, order)
    for pf in per_family.values():
        pf["scenarios"] = len(pf["scenarios"])

    # reference-free oracle: one multiset of offers, one result
    multi = 0
    for sid in sorted(outcomes):
        oc = outcomes[sid]
        if len(oc) > 1:
            multi += 1
            scn = scns[sid]
            (o1, (p1, ord1)), (o2, (p2, ord2)) = sorted(oc.items(), key=lambda kv: kv[1][0])[:2]
            key = _order_key(scn)
            _, items = scenario_items(scn)
            what = (f"tree {shape_str(scn['parents'])}, waiting area {scn['cap']}, via {scn['via']}: offering "
                    f"{[items[i].label for i in ord1]} ends with (elements, waiting) = {_lab(o1, items)} but offering "
                    f"{[items[i].label for i in ord2]} ends with {_lab(o2, items)}; {len(oc)} different results over "
                    "the orders of this multiset, none of which needs more waiting slots than there are")
            rank = (len(items), len(items), sid, p2)
            if key not in viol or rank < viol[key][0]:
                viol[key] = (rank, what, {"check": "order", "scenario": scn, "orders": [ord1, ord2]})

    violations = [core.Violation(k, what, rp) for k, (rank, what, rp) in sorted(viol.items(), key=lambda kv: kv[1][0])]

    samples = []
    for fam in ("perm", "intruder", "cap2", "bytes"):
        sid = next((i for i in range(len(scns) - 1, -1, -1) if scns[i]["family"] == fam), None)
        if sid is None:
            continue
        scn = scns[sid]
        if fam == "bytes":
            samples.append({"scenario": scn, "mutation": ["subst", 70, 3]})
        else:
            _, items = scenario_items(scn)
            order = list(reversed(range(len(items))))
            samples.append({"scenario": scn, "arrival": [items[i].label for i in order]})
    cov = {
        "evaluations": tot["evals"],
        "distinct_nontrivial": len(traces),
        "rule": "An evaluation is one (shape, intruders, waiting-area size, arrival order) execution on a fresh real "
                "TokenTree (or one mutated byte string given to unserialize_public); every such tuple within the "
                "bounds is enumerated exactly once. It is non-trivial if at least one token had to wait for its "
                "parent, an intruder was offered, or the input went through the wire parser. distinct_nontrivial "
                "counts distinct behaviours among those: (family, entry point, waiting-area size, overflowed?, "
                "intruder classes, per-arrival (accepted?, |elements|, |waiting|) sequence).",
        "nontrivial_evaluations": tot["nontrivial"],
        "samples": samples,
        "exhaustive": True,
        "bounds": bounds,
        "scenarios": len(scns),
        "per_family": per_family,
        "evaluations_with_a_waiting_token": tot["waited"],
        "evaluations_past_waiting_area_bound": tot["overflow"],
        "dump_reloads_performed": tot["reloads"],
        "scenarios_with_order_dependent_result": multi,
        "content_attached_total": tot["content_attached"],
        "correct_content_refused": tot["correct_content_refused"],
        "exceptions_accepted_as_rejection_of_truncated_input": exc,
        "depth_observations": {k: depth_obs[k] for k in sorted(depth_obs)},
        "keys": {"curve": "curve25519", "owner": fixtures.rotate(ctx.seed, 2)[0],
                 "foreign": fixtures.rotate(ctx.seed, 2)[1]},
    }
    assumptions = [
        "Signature validity in the oracle is ipv8_rust_tunnels.PublicKey.verify called directly (trusted base)",
        "Isomorphic shapes are equivalent under all arrival orders (the tree never orders by hash value), so beyond "
        "the labelled bound one representative per rooted-forest class is used",
        "Content attached to the surviving copy of a duplicated token is not part of the compared result: when a "
        "bare and a content-carrying copy both wait, the first one wins (order dependent, not claimed by the statement)",
        "Exceptions from unserialize_public on input that ends inside a chunk are accepted as rejection (counted in "
        "coverage); on whole chunks no exception is accepted",
        "A correct content offer being refused is counted (correct_content_refused), not flagged: the statement says "
        "'only if'",
        "The 'random larger trees' clause of the quantifier is sampling and is not implemented",
        "Depth: verify/get_root_path with the default maxdepth (1000) are only required to succeed for chains of at most "
        "1000 tokens (documented bound); beyond it they are asked with an explicit larger bound, and the default answer "
        "is recorded in depth_observations, not flagged. A tip-first (as dumped) reload of a branch is only required to be "
        "complete while all but the root fit the waiting area (100).",
        "Persistence: the Tokens table is keyed by (public key, previous hash, content hash), so the persistence family "
        "runs with deterministic-signature keys only (twins of an ECDSA key would collapse into one row; not flagged).",
    ]
    return core.Report(LEVEL, cov, violations, assumptions)


def _lab(outcome: tuple, items: list) -> str:
    return "(" + ", ".join("[" + ", ".join(items[i].label if i >= 0 else "?" for i in part) + "]"
                           for part in outcome) + ")"


def replay(ctx: core.Ctx, data: dict) -> list:
    scn = data["scenario"]
    if data["check"] == "bytes":
        return [core.Violation(k, what) for k, what, _ in evaluate_bytes(scn, data["mutation"])["viol"]]
    if data["check"] == "depth":
        return [core.Violation(k, what) for k, what, _ in evaluate_depth(scn)["viol"]]
    if data["check"] == "persist":
        return [core.Violation(k, what) for k, what, _ in evaluate_persist(scn, list(data["order"]))["viol"]]
    if data["check"] == "single":
        return [core.Violation(k, what) for k, what, _ in evaluate(scn, list(data["order"]))["viol"]]
    r1 = evaluate(scn, list(data["orders"][0]))
    r2 = evaluate(scn, list(data["orders"][1]))
    out = []
    if r1["outcome"] is not None and r2["outcome"] is not None and r1["outcome"] != r2["outcome"]:
        _, items = scenario_items(scn)
        key = _order_key(scn)
        out.append(core.Violation(key, f"{[items[i].label for i in data['orders'][0]]} -> {_lab(r1['outcome'], items)}"
                                       f" but {[items[i].label for i in data['orders'][1]]} -> "
                                       f"{_lab(r2['outcome'], items)}"))
    return out
