"""
C03 - No datagram can make the receive path fail or over-read.

(a) receive path: exhaustive short byte strings, every prefix x id x tail, every prefix of every valid datagram and
    tunnel cell, delivered to nodes hosting every shipped overlay class (alone and multiplexed on one endpoint);
(b) decoders: every proper prefix and every length-field substitution of valid encodings of every Serializable class
    (instances and reference codec shared with C02) - truncated input is rejected or decoded within the buffer;
(c) Network.load_snapshot never raises.
"""
from __future__ import annotations

import itertools

from ipv8.messaging.interfaces.endpoint import EndpointListener
from ipv8.messaging.interfaces.udp.endpoint import UDPv4Address
from ipv8.peer import Peer
from ipv8.peerdiscovery.network import Network

from .. import core, fixtures, overlays, simnet
from ..tunnelworld import BT_PAYLOAD, EXIT_ALL, RELAY, TunnelWorld
from . import c01

LEVEL = "exploration"

MULTI = {
    "multi-1": ["Community", "DiscoveryCommunity", "DHTCommunity", "TunnelCommunity", "PexCommunity",
                "IdentityCommunity", "AttestationCommunity"],
    "multi-2": ["Community", "DHTDiscoveryCommunity", "HiddenTunnelCommunity"],
}
TAILS = [b"", b"\x00", b"\xff", b"\x00" * 6, b"\xff" * 6]

ENTRIES: list = []


class Sniffer(EndpointListener):
    def __init__(self, endpoint) -> None:  # noqa: ANN001
        super().__init__(endpoint)
        self.seen = 0
        endpoint.add_listener(self)

    def on_packet(self, packet) -> None:  # noqa: ANN001
        self.seen += 1


def _wrap(ov, mid, h, private: bool):  # noqa: ANN001, ANN202
    def rec(*a, **kw):  # noqa: ANN002, ANN003, ANN202
        ENTRIES.append((ov, mid, private))
        return h(*a, **kw)
    rec.__name__ = getattr(h, "__name__", "handler")
    return rec


def hook_overlay(ov) -> None:  # noqa: ANN001
    for mid, h in enumerate(ov.decode_map):
        if h is not None:
            ov.decode_map[mid] = _wrap(ov, mid, h, False)
    priv = getattr(ov, "decode_map_private", None)
    if priv:
        for mid, h in list(priv.items()):
            priv[mid] = _wrap(ov, mid, h, True)


class Host:
    """A node hosting a set of overlays plus a plain sniffer registered last."""

    def __init__(self, tag: str, names: list[str], seed: int) -> None:
        self.w = simnet.World(("c03", tag, seed))
        ks = fixtures.rotate(seed, 3)
        self.node = self.w.add_node("H", ks[0])
        self.friend = self.w.add_node("F", ks[1])
        self.ovs = {n: overlays.make(self.node, n) for n in names}
        for o in self.ovs.values():
            hook_overlay(o)
        # the statistics decorator the service uses when statistics are on: a generic listener that parses every datagram
        from ipv8.messaging.interfaces.statistics_endpoint import StatisticsEndpoint  # noqa: PLC0415
        self.stats = StatisticsEndpoint(self.node.endpoint)
        for o in self.ovs.values():
            self.stats.enable_community_statistics(o.get_prefix(), True)
        self.sniffer = Sniffer(self.node.endpoint)
        self.known_src = self.friend.address
        self.unknown_src = UDPv4Address("66.66.66.66", 6666)
        # make the friend a verified peer so that the 'verified source' branch of on_packet is taken
        self.node.network.add_verified_peer(Peer(self.friend.my_peer.public_key.key_to_bin(), self.known_src))
        for o in self.ovs.values():   # DHT overlays keep a Network of their own
            if o.network is not self.node.network:
                o.network.add_verified_peer(Peer(self.friend.my_peer.public_key.key_to_bin(), self.known_src))
        self.prefixes = {n: o.get_prefix() for n, o in self.ovs.items()}
        self.tag = tag

    def deliver(self, data: bytes, src) -> list:  # noqa: ANN001
        """Returns violations [(key, what)]."""
        del ENTRIES[:]
        seen0 = self.sniffer.seen
        out = []
        try:
            self.node.endpoint.notify_listeners((src, data))
        except Exception as e:  # noqa: BLE001
            import traceback
            tb = traceback.extract_tb(e.__traceback__)
            where = f"{tb[-1].filename.split('/ipv8/')[-1]}:{tb[-1].name}" if tb else "?"
            out.append((f"receive-raises:{type(e).__name__}:{where}",
                        f"notify_listeners raised {type(e).__name__}: {e} at {where} for a {len(data)}-byte datagram "
                        f"{data[:40].hex()}"))
        try:
            self.w.loop.settle()
        except Exception as e:  # noqa: BLE001
            out.append((f"loop-raises:{type(e).__name__}", f"{e}"))
        if self.sniffer.seen != seen0 + 1 and not any(k.startswith("receive-raises") for k, _ in out):
            out.append(("listener-starved", f"a later listener did not get the datagram {data[:30].hex()}"))
        for ov, mid, private in ENTRIES:
            if data[:22] != ov.get_prefix():
                out.append((f"foreign-prefix-reaches-handler:{type(ov).__name__}",
                            f"{type(ov).__name__} handler for id {mid} ran for a datagram with prefix {data[:22].hex()}"))
        del self.w.inflight[:]
        return out

    def close(self) -> None:
        self.w.close()


# ---------------------------------------------------------------------------------------------------------------------

def short_strings():  # noqa: ANN201
    yield b""
    for a in range(256):
        yield bytes([a])
    for a in range(256):
        for b in range(256):
            yield bytes([a, b])


def work_receive(chunk: list) -> list:
    """chunk items: (host tag, names, seed, family)"""
    res = []
    for tag, names, seed, family in chunk:
        h = Host(tag, names, seed)
        viol: dict = {}
        n = 0
        entered = 0
        try:
            def feed(data: bytes, srcs) -> None:  # noqa: ANN001
                nonlocal n, entered
                for src in srcs:
                    n += 1
                    for key, what in h.deliver(data, src):
                        viol.setdefault(key, (what, {"host": tag, "names": names, "seed": seed, "data": data.hex(),
                                                     "src": list(src)}))
                    entered += len(ENTRIES)

            both = (h.known_src, h.unknown_src)
            if family == "short":
                for s in short_strings():
                    feed(s, (h.unknown_src,))
                for s in itertools.islice(short_strings(), 0, 257):
                    feed(s, (h.known_src,))
            elif family == "prefix-id-tail":
                prefixes = set(h.prefixes.values()) | {bytes(22), b"\x00\x02" + bytes(range(20))}
                for p in sorted(prefixes):
                    feed(p, both)
                    for L in range(1, 22):
                        feed(p[:L], (h.unknown_src,))
                    for mid in range(256):
                        for t in TAILS:
                            feed(p + bytes([mid]) + t, both)
            elif family == "valid-prefixes":
                table = c01.load_table()
                sender = {nm: overlays.make(h.friend, nm) for nm in names}
                for nm in names:
                    for mid_s, kind in table[nm].items():
                        if kind not in ("signed", "self-verifying", "unsigned"):
                            continue
                        try:
                            d = c01.valid_datagram(sender[nm], h.ovs[nm], int(mid_s))
                        except Exception:  # noqa: BLE001
                            hh = h.ovs[nm].decode_map[int(mid_s)]
                            continue
                        for cut in range(len(d) + 1):
                            feed(d[:cut], both if cut % 7 == 0 or cut > len(d) - 70 or cut < 60 else (h.known_src,))
                        feed(d + b"\x00", both)
            if family == "prefix-id-tail":
                # history: traffic from an address whose (cached) verified peer has since been removed / re-added
                some = sorted(h.prefixes.values())[0] + b"\xf9" + b"\x00" * 8
                for how in ("remove_peer", "remove_by_address", "remove+readd"):
                    nets = {id(o.network): o.network for o in h.ovs.values()}
                    nets[id(h.node.network)] = h.node.network
                    feed(some, (h.known_src,))        # warms every reverse-address cache
                    for net in nets.values():
                        peer = net.get_verified_by_address(h.known_src)
                        if how == "remove_by_address":
                            net.remove_by_address(h.known_src)
                        elif peer is not None:
                            net.remove_peer(peer)
                        if how == "remove+readd":
                            net.add_verified_peer(Peer(h.friend.my_peer.public_key.key_to_bin(),
                                                       UDPv4Address("44.44.44.44", 4444)))
                    feed(some, (h.known_src,))        # the first datagram after the removal
                    feed(b"", (h.known_src,))
                    for net in nets.values():
                        net.add_verified_peer(Peer(h.friend.my_peer.public_key.key_to_bin(), h.known_src))
            res.append((tag, family, n, entered, viol))
        finally:
            h.close()
    return res


def work_cells(seed: int) -> tuple:
    """Every prefix of every cell of a 2-hop build + transfer, delivered to its receiver from right and wrong source."""
    viol: dict = {}
    n = 0
    w = TunnelWorld(("c03-cells", seed), {"O": RELAY, "R1": RELAY, "X": EXIT_ALL}, key_offset=seed)
    try:
        sniffers = {nm: Sniffer(node.endpoint) for nm, node in w.nodes.items()}
        n0 = len(w.wire_log)
        c = w.build_circuit("O", ["R1", "X"])
        w.send_out("O", c, ("9.9.9.9", 99), BT_PAYLOAD)
        w.flush()
        for t in w.loop.transports:
            if t.sent:
                t.inject(BT_PAYLOAD, ("9.9.9.9", 99))
        w.flush()
        cells = [dg for dg in w.wire_log[n0:] if w.kind(dg).startswith("cell")]
        kinds = sorted({w.kind(dg) for dg in cells})
        by_addr = {tuple(node.address): node for node in w.nodes.values()}
        for dg in cells:
            target = by_addr[tuple(dg.dst)]
            for cut in range(len(dg.data) + 1):
                data = dg.data[:cut]
                for src in (dg.src, ("66.66.66.66", 6666)):
                    n += 1
                    seen0 = sniffers[target.name].seen
                    try:
                        target.endpoint.notify_listeners((src, data))
                        w.loop.settle()
                    except Exception as e:  # noqa: BLE001
                        import traceback
                        tb = traceback.extract_tb(e.__traceback__)
                        where = f"{tb[-1].filename.split('/ipv8/')[-1]}:{tb[-1].name}" if tb else "?"
                        viol.setdefault(f"receive-raises:{type(e).__name__}:{where}",
                                        (f"cell prefix of length {cut} ({w.kind(dg)}) raised {type(e).__name__}: {e} "
                                         f"at {where}", {"cells": True, "seed": seed}))
                        continue
                    if sniffers[target.name].seen != seen0 + 1:
                        viol.setdefault("listener-starved:cell", (f"later listener starved for cell prefix {cut}",
                                                                  {"cells": True, "seed": seed}))
                    del w.inflight[:]
        # authentic cells (right keys, right direction) whose *contents* are empty or truncated: every message id with
        # five short bodies, encrypted by the legitimate neighbour, forward to the exit and backward to the originator
        from ipv8.messaging.anonymization.payload import CellPayload  # noqa: PLC0415
        from ipv8.messaging.anonymization.tunnel import BACKWARD, FORWARD  # noqa: PLC0415
        w2 = TunnelWorld(("c03-cells-auth", seed), {"O": RELAY, "X": EXIT_ALL}, key_offset=seed)
        try:
            sn = {nm: Sniffer(node.endpoint) for nm, node in w2.nodes.items()}
            c1 = w2.build_circuit("O", ["X"])
            o_ov, x_ov = w2.ov["O"], w2.ov["X"]
            cid = c1.circuit_id
            bodies = [b""] + [bytes([mid]) + t for mid in range(256) for t in (b"", b"\x00" * 4, b"\xff" * 6)]
            for body in bodies:
                for direction in (FORWARD, BACKWARD):
                    cell = CellPayload(cid, body)
                    if direction == FORWARD:
                        o_ov.crypto_endpoint.encrypt_cell(cell, FORWARD, *c1.hops)
                        target, src = w2.nodes["X"], w2.nodes["O"].address
                    else:
                        x_ov.crypto_endpoint.encrypt_cell(cell, BACKWARD, x_ov.exit_sockets[cid].hop)
                        target, src = w2.nodes["O"], w2.nodes["X"].address
                    for early in (False, True):
                        cell.relay_early = early
                        data = cell.to_bin(o_ov.get_prefix())
                        n += 1
                        seen0 = sn[target.name].seen
                        try:
                            target.endpoint.notify_listeners((src, data))
                            w2.loop.settle()
                        except Exception as e:  # noqa: BLE001
                            import traceback
                            tb = traceback.extract_tb(e.__traceback__)
                            where = f"{tb[-1].filename.split('/ipv8/')[-1]}:{tb[-1].name}" if tb else "?"
                            viol.setdefault(f"receive-raises:{type(e).__name__}:{where}",
                                            (f"authentic cell with {len(body)}-byte content {body[:8].hex()} "
                                             f"(direction {direction}) raised {type(e).__name__}: {e} at {where}",
                                             {"cells": True, "seed": seed}))
                            continue
                        if sn[target.name].seen != seen0 + 1:
                            viol.setdefault("listener-starved:cell", ("later listener starved (authentic cell)",
                                                                      {"cells": True, "seed": seed}))
                        del w2.inflight[:]
                if cid not in o_ov.circuits or cid not in x_ov.exit_sockets:
                    break   # a crafted destroy/close legitimately ended the circuit
            kinds = kinds + ["authentic-short-content"]
        finally:
            w2.close()
        if w.loop.exceptions:
            viol.setdefault("loop-exception:cells", (str(w.loop.exceptions[0])[:300], {"cells": True, "seed": seed}))
        return n, kinds, viol
    finally:
        w.close()


def work_rendezvous(seed: int) -> tuple:
    """
    Valid cells of a linked hidden-service circuit re-delivered to relays whose routing entries have been removed one by
    one (the inactivity sweep drops the two entries of a relay pair independently): every subset of the relay entries of
    the rendezvous point and of the downloader-side relay x every recorded cell, from the right and from a wrong source.
    """
    import itertools  # noqa: PLC0415

    from . import c04  # noqa: PLC0415
    viol: dict = {}
    n = 0
    bench = c04.E2EBench("e2e", seed)
    try:
        w = bench.w
        d, s_ = w.ov["D"], w.ov["S"]
        zero = ("0.0.0.0", 0)
        n0 = len(w.wire_log)
        w.nodes["D"].run(d.send_data, bench.ce.hop.address, bench.ce.circuit_id, zero, zero, b"c03-rendezvous-fwd" * 3)
        w.flush()
        w.nodes["S"].run(s_.send_data, bench.cs.hop.address, bench.cs.circuit_id, zero, zero, b"c03-rendezvous-bwd" * 3)
        w.flush()
        cells = [dg for dg in w.wire_log[n0:] if w.kind(dg).startswith("cell")]
        by_addr = {tuple(node.address): node for node in w.nodes.values()}
        states = 0
        for relay_name in ("N2", "N3"):
            ov = w.ov[relay_name]
            saved = dict(ov.relay_from_to)
            mine = [dg for dg in cells if by_addr.get(tuple(dg.dst)) is w.nodes[relay_name]]
            for k in range(len(saved) + 1):
                for gone in itertools.combinations(sorted(saved), k):
                    states += 1
                    for dg in mine:
                        for src in (dg.src, ("66.66.66.66", 6666)):
                            ov.relay_from_to.clear()
                            ov.relay_from_to.update({c: r for c, r in saved.items() if c not in gone})
                            n += 1
                            try:
                                w.nodes[relay_name].endpoint.notify_listeners((src, dg.data))
                                w.loop.settle()
                            except Exception as e:  # noqa: BLE001
                                import traceback  # noqa: PLC0415
                                tb = traceback.extract_tb(e.__traceback__)
                                where = f"{tb[-1].filename.split('/ipv8/')[-1]}:{tb[-1].name}" if tb else "?"
                                viol.setdefault(f"receive-raises:{type(e).__name__}:{where}",
                                                (f"valid cell for circuit id {w.cell_fields(dg.data)[0]} at rendezvous-"
                                                 f"circuit relay {relay_name} with {len(gone)} of its {len(saved)} relay "
                                                 f"entries removed raised {type(e).__name__}: {e} at {where}",
                                                 {"rendezvous": True, "seed": seed}))
                            del w.inflight[:]
            ov.relay_from_to.clear()
            ov.relay_from_to.update(saved)
        if not cells or states < 8:
            viol.setdefault("harness:rendezvous-vacuous", (f"{len(cells)} cells, {states} table states",
                                                           {"rendezvous": True, "seed": seed}))
        return n, states, viol
    finally:
        bench.close()


EXIT_SHAPES = [bytes(24), bytes([0, 0, 0, 3]) + bytes(20), bytes([0, 0, 0, 4]) + bytes(20), b"\xff" * 24,
               bytes.fromhex("0000041727101980") + bytes(16), b"d1:ad2:id20:" + b"a" * 12, b"d" + b"1" * 22 + b"e",
               bytes([0x01]) + bytes(23), bytes([0x11]) + bytes(23), bytes([0x21]) + bytes(23), bytes([0x31]) + bytes(23),
               bytes([0x41]) + bytes(23), b"\x00\x02" + bytes(range(1, 21)) + b"\xf9\x00", b"\x00\x01" + bytes(22)]


def work_exit_socket(seed: int) -> tuple:
    """
    Datagrams arriving from the outside world on an exit node's open outside sockets (the receive path of
    TunnelExitSocket): every length 0..24 of 14 leading-byte shapes (what the traffic classifier branches on) on the
    IPv4 and the IPv6 transport, for every exit flag set. Nothing may reach the loop's exception handler.
    """
    from ..tunnelworld import EXIT_BT  # noqa: PLC0415
    viol: dict = {}
    n = 0
    for flags_name, flags in (("relay-only", RELAY), ("exit-bt", EXIT_BT), ("exit-all", EXIT_ALL)):
        w = TunnelWorld(("c03-exit", seed, flags_name), {"O": RELAY, "X": flags}, key_offset=seed)
        try:
            c = w.build_circuit("O", ["X"])
            w.send_out("O", c, ("9.9.9.9", 99), BT_PAYLOAD)
            w.flush()
            transports = list(w.open_transports())
            if flags_name != "relay-only" and len(transports) < 2:
                viol.setdefault("harness:exit-socket-not-open", (f"{flags_name}: {len(transports)} transports", None))
            for t in transports:
                v6 = ":" in t.local_addr[0]
                for shape_i, shape in enumerate(EXIT_SHAPES):
                    for ln in range(len(shape) + 1):
                        src = ("2001:db8::9", 99, 0, 0) if v6 else ("9.9.9.9", 99)
                        n += 1
                        before = len(w.loop.exceptions)
                        t.inject(shape[:ln], src)
                        w.flush()
                        if len(w.loop.exceptions) > before:
                            exc = w.loop.exceptions[-1].get("exception")
                            viol.setdefault(f"exit-socket-receive-raises:{type(exc).__name__}",
                                            (f"outside datagram {shape[:ln].hex()} ({ln} bytes) on the exit's "
                                             f"{'IPv6' if v6 else 'IPv4'} socket ({flags_name}): {exc!r} reached the loop",
                                             {"exit_socket": True, "seed": seed}))
        finally:
            w.close()
    return n, viol


def work_broadcast(seed: int) -> tuple:
    """
    The second datagram socket an overlay may own: BroadcastBootstrapEndpoint.datagram_received. Every prefix of a valid
    announce, announces for every other overlay prefix, over-long announces, and the short / prefix-id-tail families of the
    main receive path. It may raise nothing; the overlay is asked to walk only for an announce that names exactly its
    own prefix; a datagram that does not carry the overlay's prefix does not reach its on_packet.
    """
    from ipv8.bootstrapping.udpbroadcast.bootstrapper import HDR_ANNOUNCE, BroadcastBootstrapEndpoint  # noqa: PLC0415
    viol: dict = {}
    n = 0
    w = simnet.World(("c03-broadcast", seed))
    try:
        node = w.add_node("H", fixtures.rotate(seed, 1)[0])
        ov = node.add_overlay(_CA)
        bep = BroadcastBootstrapEndpoint(ov)
        walked: list = []
        packets: list = []
        ov.walk_to = lambda addr: walked.append(addr)
        orig = ov.on_packet
        ov.on_packet = lambda packet, warn_unknown=True: (packets.append(packet), orig(packet))[1]
        own = ov.get_prefix()
        others = sorted({bytes([0, 2]) + cls.community_id for cls, _ in overlays.OVERLAYS.values()
                         if getattr(cls, "community_id", None)} | {b"\x00\x02" + _CB.community_id})
        full = HDR_ANNOUNCE + own
        inputs = [full[:k] for k in range(len(full) + 1)]
        inputs += [HDR_ANNOUNCE + p for p in others] + [full + b"\x00", full + own, HDR_ANNOUNCE + b"\x00\x02"]
        inputs += [own[:k] for k in range(len(own) + 1)] + [own + bytes([i]) + tail for i in range(256)
                                                           for tail in (b"", b"\x00" * 4)]
        inputs += list(short_strings())
        src = ("66.66.66.66", 6666)
        for data in inputs:
            n += 1
            del walked[:]
            del packets[:]
            try:
                bep.datagram_received(data, src)
                w.loop.settle()
            except Exception as e:  # noqa: BLE001
                viol.setdefault(f"broadcast-socket-raises:{type(e).__name__}",
                                (f"datagram {data[:40].hex()} on the broadcast socket raised {e!r}",
                                 {"broadcast": True, "seed": seed}))
                continue
            if walked and data != full:
                viol.setdefault("broadcast-socket:walk-for-foreign-or-truncated-announce",
                                (f"datagram {data.hex()} made the overlay walk to its sender; only {full.hex()} names this "
                                 f"overlay", {"broadcast": True, "seed": seed}))
            if data == full and not walked:
                viol.setdefault("harness:broadcast-valid-announce-ignored", ("valid announce did not trigger a walk",
                                                                             {"broadcast": True, "seed": seed}))
            if packets and not data.startswith(own):
                viol.setdefault("broadcast-socket:foreign-datagram-reaches-overlay",
                                (f"datagram {data[:40].hex()} without the overlay's prefix reached on_packet",
                                 {"broadcast": True, "seed": seed}))
            del w.inflight[:]
        if w.loop.exceptions:
            viol.setdefault("loop-exception:broadcast", (str(w.loop.exceptions[0])[:300], {"broadcast": True, "seed": seed}))
        return n, viol
    finally:
        w.close()


WAITER_STATES = ("pending", "cancelled", "failed", "answered")


def work_late_answers(seed: int) -> tuple:
    """
    Authentic answers to outstanding requests whose waiter is gone: A asks B (DHT ping / find on both DHT overlays,
    Discovery ping); before B's answer is handed to A, the future the application awaited is left pending, cancelled
    (asyncio.wait_for timed out), failed or already completed.  Handing the answer to A returns normally - nothing, a
    BaseException such as CancelledError included, leaves notify_listeners - and a later listener still sees it.
    """
    viol: dict = {}
    n = 0
    for oname in ("DHTCommunity", "DHTDiscoveryCommunity", "DiscoveryCommunity"):
        kinds = ("ping",) if oname == "DiscoveryCommunity" else ("ping", "find")
        for kind in kinds:
            for state in WAITER_STATES:
                w = simnet.World(("c03-late", oname, kind, state, seed))
                try:
                    ks = fixtures.rotate(seed, 2)
                    a, b = w.add_node("A", ks[0]), w.add_node("B", ks[1])
                    oa, ob = overlays.make(a, oname), overlays.make(b, oname)
                    oa.walk_to(b.address)
                    w.flush()
                    sniffer = Sniffer(a.endpoint)
                    before = set(oa.request_cache._identifiers)  # noqa: SLF001
                    if oname == "DiscoveryCommunity":
                        peer = next(iter(oa.get_peers()), None)
                        if peer is None:
                            viol.setdefault("harness:late-answers-no-peer", (oname, {"late": True, "seed": seed}))
                            continue
                        a.run(oa.send_ping, peer)
                    else:
                        rt = next(iter(oa.routing_tables.values()), None)
                        nodes = [] if rt is None else rt.closest_nodes(ob.my_peer.mid, 1)
                        if not nodes:
                            viol.setdefault("harness:late-answers-no-node", (oname, {"late": True, "seed": seed}))
                            continue
                        if kind == "ping":
                            a.run(oa.ping, nodes[0])
                        else:
                            a.run(oa._send_find_request, nodes[0], ob.my_peer.mid, False)  # noqa: SLF001
                    new = [c for k, c in oa.request_cache._identifiers.items() if k not in before]  # noqa: SLF001
                    fut = getattr(new[0], "future", None) if new else None
                    if fut is not None and not fut.done():
                        if state == "cancelled":
                            fut.cancel()
                        elif state == "failed":
                            fut.set_exception(RuntimeError("the application gave up"))
                            fut.exception()
                        elif state == "answered":
                            fut.set_result(None)
                    elif state != "pending":
                        continue                       # this request has no future a waiter could have touched
                    w.loop.settle()
                    # B handles the request; its answer is then handed to A by hand so that nothing hides an exception
                    while w.inflight and tuple(w.inflight[0].dst) != tuple(a.address):
                        w.deliver(0)
                    answers = [dg for dg in w.inflight if tuple(dg.dst) == tuple(a.address)]
                    del w.inflight[:]
                    if not answers:
                        viol.setdefault("harness:late-answers-no-answer", (f"{oname} {kind}", {"late": True, "seed": seed}))
                    for dg in answers:
                        n += 1
                        seen0 = sniffer.seen
                        try:
                            a.endpoint.notify_listeners((dg.src, dg.data))
                            w.loop.settle()
                        except BaseException as e:  # noqa: BLE001
                            import traceback  # noqa: PLC0415
                            tb = traceback.extract_tb(e.__traceback__)
                            where = f"{tb[-1].filename.split('/ipv8/')[-1]}:{tb[-1].name}" if tb else "?"
                            viol.setdefault(f"receive-raises:{type(e).__name__}:{where}",
                                            (f"{oname}: the authentic answer to a {kind} request whose waiter was {state} "
                                             f"raised {type(e).__name__} out of notify_listeners at {where}",
                                             {"late": True, "seed": seed}))
                            continue
                        if sniffer.seen != seen0 + 1:
                            viol.setdefault("listener-starved", (f"{oname}: a later listener did not get the answer to a "
                                                                 f"{kind} request ({state})", {"late": True, "seed": seed}))
                finally:
                    w.close()
    return n, viol


def work_packers(seed: int) -> tuple:
    """
    The packers are also used one at a time (Serializer.unpack / Packer.unpack: PEX introduction points, the tunnel
    candidate list, DHT node lists): for every registered format and every value of its boundary alphabet, every proper
    prefix of the encoding - alone and behind 5 foreign bytes - is decoded through both entry points.  The call raises,
    or the reported end position lies inside the buffer.
    """
    from ..harness import c02  # noqa: PLC0415
    from ..ref import c02_domain as dom  # noqa: PLC0415
    from ..ref import c02_wire as wire  # noqa: PLC0415
    viol: dict = {}
    n = 0
    ser = dom.serializer()
    for fmt in ser.get_available_formats():
        if fmt in ("payload", "payload-list", "raw") or not wire.known(fmt):
            continue
        packer = ser.get_packer_for(fmt)
        for desc in dom.alphabet_for(fmt):
            if dom.desc_size(desc) > 600:
                continue
            try:
                enc = packer.pack(*c02.packer_args(fmt, desc))
            except Exception:  # noqa: BLE001, S112
                continue
            for lead in (b"", b"\x00\xff\x00\xff\x00"):
                for cut in range(len(enc)):
                    buf = lead + enc[:cut]
                    for how in ("Packer.unpack", "Serializer.unpack"):
                        n += 1
                        try:
                            if how == "Packer.unpack":
                                end = packer.unpack(buf, len(lead), [])
                            else:
                                if fmt == "bits" or fmt in dom.MULTI_VALUE:
                                    continue
                                _, end = ser.unpack(fmt, buf, len(lead))
                        except Exception:  # noqa: BLE001, S112
                            continue
                        if end > len(buf):
                            viol.setdefault(f"packer-accepts-truncated:{fmt}",
                                            (f"{how}({fmt!r}) of the first {cut} of {len(enc)} bytes of an encoding "
                                             f"({enc[:16].hex()}..) at offset {len(lead)} returns end position {end}, the "
                                             f"buffer has {len(buf)} bytes", {"packers": True, "seed": seed}))
    return n, viol


def work_snapshot(seed: int) -> tuple:
    viol: dict = {}
    n = 0
    net = Network()
    for i, a in enumerate([UDPv4Address("1.2.3.4", 5), UDPv4Address("255.255.255.255", 65535), ("::1", 8)]):
        net.add_verified_peer(Peer(fixtures.public_bin(fixtures.rotate(seed, 3)[i]), a))
    snap = net.snapshot()
    cases = [snap[:i] for i in range(len(snap) + 1)]
    for pos in range(len(snap)):
        for v in range(256):
            if v != snap[pos]:
                cases.append(snap[:pos] + bytes([v]) + snap[pos + 1:])
    for s in cases:
        n += 1
        fresh = Network()
        try:
            fresh.load_snapshot(s)
            fresh.get_walkable_addresses()
        except Exception as e:  # noqa: BLE001
            viol.setdefault(f"load_snapshot-raises:{type(e).__name__}", (f"{type(e).__name__}: {e} on {s.hex()}",
                                                                         {"snapshot": s.hex()}))
    full = Network()
    full.load_snapshot(snap)
    want = {p.address for p in net.verified_peers}
    if set(full.get_walkable_addresses()) != want:
        viol.setdefault("snapshot-roundtrip", (f"{sorted(full.get_walkable_addresses())} != {sorted(want)}", None))
    return n, len(snap), viol


# ---- (d) demultiplexing under listener churn -------------------------------------------------------------------------

class _CA(overlays.PlainCommunity):
    community_id = bytes(range(1, 21))


class _CB(overlays.PlainCommunity):
    community_id = bytes(range(31, 51))


CHURN_ALPHABET = ["dA", "dB", "dU", "loadA", "unloadA", "loadB", "unloadB", "sniff", "loadA2", "unloadA2", "oneshot"]


class OneShot(EndpointListener):
    """A generic listener that unregisters itself from inside on_packet (legal: removal is synchronous)."""

    def __init__(self, endpoint) -> None:  # noqa: ANN001
        super().__init__(endpoint)
        self.seen = 0
        endpoint.add_listener(self)

    def on_packet(self, packet) -> None:  # noqa: ANN001
        self.seen += 1
        self.endpoint.remove_listener(self)


def work_churn(chunk: list) -> list:
    """Each item is a first event; all sequences of the given depth starting with it are run on a fresh endpoint."""
    out = []
    for first, depth, seed in chunk:
        n = 0
        viol: dict = {}
        for rest in itertools.product(range(len(CHURN_ALPHABET)), repeat=depth - 1):
            seq = [CHURN_ALPHABET[first]] + [CHURN_ALPHABET[i] for i in rest]
            w = simnet.World(("c03-churn", seed))
            try:
                node = w.add_node("H", fixtures.rotate(seed, 1)[0])
                live: dict = {}
                got: list = []
                sniffers: list = []
                gen = 0

                def load(cls, tag):  # noqa: ANN001, ANN202
                    nonlocal gen
                    gen += 1
                    o = node.add_overlay(cls)
                    me = (tag, gen)
                    orig = o.on_packet
                    o.on_packet = lambda packet, warn_unknown=True, me=me, orig=orig: (got.append(me), orig(packet))[1]
                    # the endpoint holds the listener object and calls listener.on_packet: instance attribute wins
                    live[tag] = (o, me)

                for step, ev in enumerate(seq):
                    if ev in ("dA", "dB", "dU"):
                        prefix = {"dA": b"\x00\x02" + _CA.community_id, "dB": b"\x00\x02" + _CB.community_id,
                                  "dU": b"\x00\x02" + bytes(20)}[ev]
                        del got[:]
                        s0 = [x.seen for x in sniffers]
                        n += 1
                        try:
                            node.endpoint.notify_listeners((("66.66.66.66", 6666), prefix + b"\xf9" + b"\x00" * 8))
                            w.loop.settle()
                        except Exception as e:  # noqa: BLE001
                            viol.setdefault(f"churn-raises:{type(e).__name__}", (f"{seq[:step + 1]}: {e}",
                                                                                 {"churn": seq[:step + 1], "seed": seed}))
                            continue
                        want = sorted(me for tag, (o, me) in live.items())   # every registered overlay sees it ...
                        # ... through its on_packet; which of them *handles* it is decided by the prefix test inside.
                        # Endpoint contract: prefix listeners get their own prefix, generic listeners get everything.
                        want = sorted(me for tag, (o, me) in live.items()
                                      if (tag in ("A", "A2") and ev == "dA") or (tag == "B" and ev == "dB"))
                        if sorted(got) != want:
                            viol.setdefault("demux-wrong-listeners",
                                            (f"after {seq[:step + 1]} the datagram reached overlay instances {sorted(got)}, "
                                             f"registered for that prefix: {want}", {"churn": seq[:step + 1], "seed": seed}))
                        # (a generic listener may see the datagram twice when two prefix listeners share a prefix - the
                        # statement only promises that it still gets it)
                        if any(x.seen < a + 1 for x, a in zip(sniffers, s0)):
                            viol.setdefault("demux-generic-listener-starved",
                                            (f"after {seq[:step + 1]} a generic listener missed the datagram",
                                             {"churn": seq[:step + 1], "seed": seed}))
                    elif ev == "loadA" and "A" not in live:
                        load(_CA, "A")
                    elif ev == "loadB" and "B" not in live:
                        load(_CB, "B")
                    elif ev == "loadA2" and "A2" not in live:
                        load(_CA, "A2")     # a second instance of the same class: same prefix, same endpoint
                    elif ev == "unloadA2" and "A2" in live:
                        w.loop.drive(live.pop("A2")[0].unload())
                    elif ev == "unloadA" and "A" in live:
                        w.loop.drive(live.pop("A")[0].unload())
                    elif ev == "unloadB" and "B" in live:
                        w.loop.drive(live.pop("B")[0].unload())
                    elif ev == "sniff" and len(sniffers) < 2:
                        sniffers.append(Sniffer(node.endpoint))
                    elif ev == "oneshot":
                        OneShot(node.endpoint)
            finally:
                w.close()
        out.append((n, viol))
    return out


# ---- (b) decoders ---------------------------------------------------------------------------------------------------

def _decoder_cases(spec, seed: int, thorough: bool):  # noqa: ANN001, ANN202
    """(descs) instances of one class: its small representatives plus boundary instances (bounded)."""
    out = list(spec.representatives())
    cap = 120 if thorough else 30
    for descs in spec.instances(d=1, cap=cap, seed=seed):
        if descs not in out:
            out.append(descs)
        if len(out) >= cap:
            break
    return out


_DEC_THOROUGH = False
_DEC_SEED = 0


def work_decoders(chunk: list) -> list:
    """
    chunk items: ClassSpec keys.  For every bounded instance: every proper prefix of its encoding and every
    single-byte substitution in {0, 1, orig+1, 0xff} of its first 48 bytes is handed to unpack_serializable.
    Accepting is fine only if the reported end lies inside the buffer and the reference codec does not find a
    length-prefixed part (or fixed-width field) running past the end of the buffer.
    """
    from ..ref import c02_domain as dom  # noqa: PLC0415
    from ..ref import c02_wire as wire  # noqa: PLC0415
    ser = dom.serializer()
    res = []
    for key in chunk:
        spec = dom.spec_by_key(key)
        out = {"key": key, "evaluations": 0, "accepted": 0, "rejected": 0, "violations": []}
        seen_keys = set()
        for descs in _decoder_cases(spec, _DEC_SEED, _DEC_THOROUGH):
            try:
                obj = spec.build(descs)
                enc = ser.pack_serializable(obj)
            except Exception:  # noqa: BLE001, S112
                continue
            if len(enc) > 600:
                continue
            variants = [("prefix", enc[:k]) for k in range(len(enc))]
            for pos in range(min(len(enc), 48)):
                for v in {0, 1, (enc[pos] + 1) & 0xFF, 0xFF} - {enc[pos]}:
                    variants.append(("subst", enc[:pos] + bytes([v]) + enc[pos + 1:]))
            for kind, data in variants:
                out["evaluations"] += 1
                try:
                    value, end = ser.unpack_serializable(spec.cls, data)
                except Exception:  # noqa: BLE001
                    out["rejected"] += 1
                    continue
                out["accepted"] += 1
                why = None
                if end > len(data):
                    why = f"reported end {end} lies beyond the {len(data)}-byte buffer"
                elif "arrayH" in repr(spec.ref_format_list):
                    # the arrayH-* formats are written in host byte order (known finding under C02): the big-endian
                    # reference reads another count from the same bytes, so only the end-inside-buffer test applies
                    pass
                else:
                    try:
                        wire.decode_payload(spec.ref_format_list, data, 0)
                    except wire.WireError as e:
                        if str(e).startswith("truncated"):
                            why = f"accepted although {e}"
                    except Exception:  # noqa: BLE001, S110
                        pass
                if why:
                    vkey = f"decoder-accepts-truncated:{spec.name}:{kind}"
                    if vkey not in seen_keys:
                        seen_keys.add(vkey)
                        out["violations"].append((vkey, f"{spec.name}: unpack_serializable on {data.hex()[:80]} "
                                                  f"({len(data)} bytes, {kind} of a valid encoding) {why}",
                                                  {"decoder": True, "class": key, "data": data.hex()}))
        res.append(out)
    return res


def run(ctx: core.Ctx) -> core.Report:
    seed = ctx.seed % 10
    items = []
    hosts = dict(MULTI)
    for n in overlays.OVERLAYS:
        hosts[f"solo-{n}"] = [n]
    for tag, names in hosts.items():
        fams = ["short", "prefix-id-tail", "valid-prefixes"] if (tag.startswith("multi") or ctx.thorough) else \
            ["prefix-id-tail", "valid-prefixes"]
        for fam in fams:
            items.append((tag, names, seed, fam))
    res = core.pmap(work_receive, items, ctx.jobs, chunk=1)
    violations: list = []
    evals = 0
    entered = 0
    fam_counts: dict = {}
    for tag, fam, n, ent, viol in res:
        evals += n
        entered += ent
        fam_counts[fam] = fam_counts.get(fam, 0) + n
        for key, (what, rp) in viol.items():
            violations.append(core.Violation(key, f"[{tag}/{fam}] {what}", rp))
    n_cells, cell_kinds, v = work_cells(seed)
    for key, (what, rp) in v.items():
        violations.append(core.Violation(key, what, rp))
    n_snap, snaplen, v = work_snapshot(seed)
    for key, (what, rp) in v.items():
        violations.append(core.Violation(key, what, rp))
    n_rdv, rdv_states, v = work_rendezvous(seed)
    for key, (what, rp) in v.items():
        violations.append(core.Violation(key, what, rp))
    n_exit, v = work_exit_socket(seed)
    for key, (what, rp) in v.items():
        violations.append(core.Violation(key, what, rp))
    n_bc, v = work_broadcast(seed)
    for key, (what, rp) in v.items():
        violations.append(core.Violation(key, what, rp))
    n_late, v = work_late_answers(seed)
    for key, (what, rp) in v.items():
        violations.append(core.Violation(key, what, rp))
    n_pk, v = work_packers(seed)
    for key, (what, rp) in sorted(v.items())[:8]:
        violations.append(core.Violation(key, what, rp))
    depth = 5 if ctx.thorough else 4    # 11-event alphabet (two overlays, a twin on the same prefix, a sniffer)
    churn = core.pmap(work_churn, [(i, depth, seed) for i in range(len(CHURN_ALPHABET))], ctx.jobs, chunk=1)
    n_churn = sum(c[0] for c in churn)
    for _, viol in churn:
        for key, (what, rp) in viol.items():
            violations.append(core.Violation(key, what, rp))
    global _DEC_THOROUGH, _DEC_SEED
    _DEC_THOROUGH, _DEC_SEED = ctx.thorough, seed
    from ..ref import c02_domain as dom  # noqa: PLC0415
    specs = dom.enumerate_classes(include_synthetic=True)
    parts = core.pmap(work_decoders, [sp.key for sp in specs], ctx.jobs, chunk=4)
    dec = {"evaluations": sum(p["evaluations"] for p in parts), "classes": len(specs),
           "accepted_within_buffer": sum(p["accepted"] for p in parts), "rejected": sum(p["rejected"] for p in parts)}
    fold: dict = {}
    for p_ in parts:
        for key, what, rp in p_["violations"]:
            fold.setdefault(key, (what, rp))
    # one defect in a shared packer shows up in every class that uses it: report at most a handful of keys
    for key, (what, rp) in sorted(fold.items())[:12]:
        violations.append(core.Violation(key, what, rp))
    dec["violating_classes"] = len({k.split(":")[1] for k in fold})
    total = evals + n_cells + n_snap + dec["evaluations"] + n_churn + n_rdv + n_exit + n_bc + n_late + n_pk
    cov = {
        "evaluations": total,
        "distinct_nontrivial": total - len(items),
        "rule": "one evaluation = one byte string handed to Endpoint.notify_listeners of a node hosting real overlays "
                "(every string of length 0-2; every overlay prefix and its proper prefixes x every id x 5 tails; every "
                "prefix of every valid datagram of every registered id; every prefix of every cell of a 2-hop circuit "
                "build and transfer), or to Network.load_snapshot (every prefix and single-byte substitution), or to "
                "unpack_serializable (every proper prefix / length-field substitution of valid encodings); all inputs "
                "are distinct byte strings per host and source",
        "samples": [{"host": t, "family": f, "inputs": n, "handler_entries": e} for t, f, n, e, _ in res[:4]],
        "exhaustive": True,
        "families": fam_counts,
        "handler_entries_observed": entered,
        "cell_inputs": n_cells, "cell_kinds": cell_kinds,
        "snapshot_inputs": n_snap,
        "exit_socket_inputs": n_exit, "broadcast_socket_inputs": n_bc, "late_answers": n_late, "single_packer_inputs": n_pk,
        "rendezvous_relays": {"inputs": n_rdv, "table_states": rdv_states,
                              "rule": "recorded valid cells of a linked hidden-service circuit x every subset of the relay "
                                      "entries of the rendezvous point and of the downloader-side relay removed"},
        "demux_churn": {"deliveries": n_churn, "depth": depth, "alphabet": CHURN_ALPHABET},
        "decoder_part": dec,
        "hosts": {k: v for k, v in hosts.items()},
    }
    return core.Report(LEVEL, cov, violations,
                       ["exceptions inside tasks started by handlers are logged by the library and are not 'reaching the "
                        "transport'; only exceptions leaving notify_listeners count",
                        "handler entry = entry of the function registered in decode_map / decode_map_private"])


def replay(ctx: core.Ctx, data) -> list:  # noqa: ANN001
    if not data:
        return []
    if data.get("churn"):
        seq = data["churn"]
        first = CHURN_ALPHABET.index(seq[0])
        out = []
        for _, viol in work_churn([(first, len(seq), data["seed"])]):
            out += [core.Violation(k, w) for k, (w, rp) in viol.items()]
        return out
    if data.get("cells"):
        return [core.Violation(k, w) for k, (w, _) in work_cells(data["seed"])[2].items()]
    if data.get("exit_socket"):
        return [core.Violation(k, w) for k, (w, _) in work_exit_socket(data["seed"])[1].items()]
    if data.get("broadcast"):
        return [core.Violation(k, w) for k, (w, _) in work_broadcast(data["seed"])[1].items()]
    if data.get("packers"):
        return [core.Violation(k, w) for k, (w, _) in work_packers(data["seed"])[1].items()]
    if data.get("late"):
        return [core.Violation(k, w) for k, (w, _) in work_late_answers(data["seed"])[1].items()]
    if data.get("rendezvous"):
        return [core.Violation(k, w) for k, (w, _) in work_rendezvous(data["seed"])[2].items()]
    if "snapshot" in data:
        return [core.Violation(k, w) for k, (w, _) in work_snapshot(0)[2].items()]
    if "host" in data:
        h = Host(data["host"], data["names"], data["seed"])
        try:
            return [core.Violation(k, w) for k, w in h.deliver(bytes.fromhex(data["data"]), tuple(data["src"]))]
        finally:
            h.close()
    if data.get("decoder"):
        from ..ref import c02_domain as dom  # noqa: PLC0415
        from ..ref import c02_wire as wire  # noqa: PLC0415
        spec = dom.spec_by_key(data["class"])
        raw = bytes.fromhex(data["data"])
        try:
            _, end = dom.serializer().unpack_serializable(spec.cls, raw)
        except Exception:  # noqa: BLE001
            return []
        if end > len(raw):
            return [core.Violation(f"decoder-accepts-truncated:{spec.name}", f"end {end} > {len(raw)}")]
        try:
            wire.decode_payload(spec.ref_format_list, raw, 0)
        except wire.WireError as e:
            if str(e).startswith("truncated"):
                return [core.Violation(f"decoder-accepts-truncated:{spec.name}", str(e))]
        return []
    return []
