"""
C10 - Each outstanding request is resolved exactly once.

Explicit-state BFS over schedules of the real ``RequestCache`` (and the ``TaskManager`` under it) running on
``mc.vloop.VirtualLoop``.  The explorer owns *when* things happen: API calls are issued between loop
iterations (or queued as I/O callbacks of the next iteration), the loop is advanced one stock ``_run_once``
at a time, and virtual time only passes - to the next timer - when the loop would block.

The oracle is a per-request state machine (mc/ref/c10_ref.py) written from the property statement:
Outstanding -> Claimed | TimedOut | Cancelled.  It is fed with the *observed* calls and callbacks in the
order they really happened and says what each of them had to return.  After every transition the world is
additionally run to quiescence ("run-out": all timers within the horizon) to see what the future holds for the
requests of this state.
"""
from __future__ import annotations

import asyncio
import logging

import ipv8.requestcache as rq_mod
from ipv8.lazy_community import retrieve_cache
from ipv8.requestcache import NumberCache, RandomNumberCache, RequestCache

from .. import core, seams, vloop
from ..ref import c10_shipped as shipped
from ..ref.c10_ref import OUTSTANDING, RefCaches

LEVEL = "model_checking"

HORIZON = 5.0          # "let time pass" never jumps further than this (cache timeouts are <= 3 s)
RUNOUT_CAP = 64        # iterations of the run-out loop (never reached; reported if it is)
RESPONSE = "response"  # what the harness' response handler puts in a claimed request's future


# ------------------------------------------------------------------------------------------------
# the caches that are put into the RequestCache
# ------------------------------------------------------------------------------------------------

class SlotSpec:
    """One cache object of the explored world."""

    def __init__(self, ident: int, delay: float, future=None, pops: int | None = None, script=None) -> None:  # noqa: ANN001
        self.ident = ident      # index into Model.idents: slots with the same ident share (prefix, number)
        self.delay = delay
        self.future = future    # None | "value" | "default" | "exception": what the tied future gets on timeout
        # what on_timeout does, in order: ("query", ident) = has/get/constructor guard on that identity, recorded;
        # ("pop", ident) = pop it (KeyError caught); ("add", slot) = register that (other) cache object: a retry
        self.script = [tuple(x) for x in (script if script is not None else ([("pop", pops)] if pops is not None else []))]

    def params(self) -> dict:
        return {"ident": self.ident, "delay": self.delay, "future": self.future, "script": [list(x) for x in self.script]}


def make_cache_class(prefix: str) -> type:
    class Cache(NumberCache):
        name = prefix  # for retrieve_cache / has(cls) / pop(cls)

        def __init__(self, rc: RequestCache, number: int, delay: float, world=None, slot: int = -1,  # noqa: ANN001
                     script=()) -> None:  # noqa: ANN001
            super().__init__(rc, prefix, number)
            self.delay = delay
            self.world = world
            self.slot = slot
            self.script = script

        @property
        def timeout_delay(self) -> float:
            return self.delay

        def on_timeout(self) -> None:
            w = self.world
            w.log.append(("timeout", self.slot, w.loop.time()))
            for step in self.script:
                if step[0] == "pop":
                    w.do_pop(step[1], "nested")
                elif step[0] == "query":
                    w.do_query(step[1])
                elif step[0] == "add":
                    w.do_add(step[1], None)
                elif step[0] == "raise":
                    raise CallbackFailure(self.slot)

        def __repr__(self) -> str:
            return f"<cache slot={self.slot}>"

    Cache.__qualname__ = Cache.__name__ = f"Cache_{prefix}"
    return Cache


class CallbackFailure(Exception):
    """What an application's on_timeout raises in the `raiser` worlds; the loop's exception handler may see this one."""


class Probe(RandomNumberCache):
    def on_timeout(self) -> None:
        pass


class FakePayload:
    def __init__(self, identifier: int) -> None:
        self.identifier = identifier


def make_overlay_class(cache_class: type) -> type:
    """The smallest thing ``retrieve_cache`` works on: ``request_cache`` + ``logger`` + a decorated handler."""

    class FakeOverlay:
        def __init__(self, rc: RequestCache) -> None:
            self.request_cache = rc
            self.logger = logging.getLogger("c10-overlay")
            self.got = []

        @retrieve_cache(cache_class)
        def on_response(self, peer, payload, cache) -> str:  # noqa: ANN001
            self.got.append(cache)
            return "handled"

        @retrieve_cache(cache_class)
        def on_response_failing(self, peer, payload, cache) -> str:  # noqa: ANN001
            # a response handler that trips over the response's contents (Community.on_packet catches and logs that):
            # the request was still claimed by its response
            self.got.append(cache)
            raise CallbackFailure(-1)

    return FakeOverlay


# ------------------------------------------------------------------------------------------------
# the explored world
# ------------------------------------------------------------------------------------------------

class World:
    def __init__(self, m: "Model") -> None:
        self.m = m
        self.loop = vloop.new_loop()
        self.created: list = []       # every task of this world in creation order (strong refs: ids are never reused)
        self.loop.set_task_factory(self._task_factory)
        self.adopting: int | None = None
        self.rc = RequestCache()
        self.log: list = []
        self.consumed = 0
        self.viol: list = []          # (key, what) produced by the reference while consuming the log
        self.last_viol_start = 0
        self.objs = [m.classes[m.idents[s.ident][0]](self.rc, m.idents[s.ident][1], s.delay, self, i, s.script)
                     for i, s in enumerate(m.slots)]
        self.futs: list = [None] * len(m.slots)
        self.tasks: dict = {}         # id(task) -> (slot, seq) for the tasks created inside add(slot)
        self.overlays = [m.overlay_classes[p](self.rc) for p in range(len(m.prefixes))]
        self.sd_requested = False
        self.sd_task = None
        self.waits: list = []
        self.ref = RefCaches([(s.ident, s.delay, s.future) for s in m.slots])

    # --- helpers ---------------------------------------------------------------------------------
    def slot_of(self, obj) -> int | str:  # noqa: ANN001
        for i, o in enumerate(self.objs):
            if o is obj:
                return i
        return "foreign:" + type(obj).__name__

    def _task_factory(self, loop, coro, **kw):  # noqa: ANN001, ANN003, ANN202
        t = asyncio.Task(coro, loop=loop, **kw)
        if self.adopting is not None:
            self.tasks[id(t)] = (self.adopting, len(self.created))
        self.created.append(t)
        return t

    def live_tasks(self) -> list:
        return [t for t in self.created if not t.done()]

    def fut_value(self, slot: int):  # noqa: ANN201
        return self.m.fut_values[slot]

    # --- operations (called directly by the explorer, from an I/O callback, or from on_timeout) ---
    def do_add(self, slot: int, pt: float | None) -> None:
        obj = self.objs[slot]
        spec = self.m.slots[slot]
        if spec.future is not None and (self.futs[slot] is None or self.futs[slot].done()):
            f = self.loop.create_future()
            if spec.future == "default":
                obj.register_future(f)
            else:
                obj.register_future(f, self.fut_value(slot))
            self.futs[slot] = f
        outer, self.adopting = self.adopting, slot
        try:
            if pt is None:
                r = self.rc.add(obj)
            else:
                with self.rc.passthrough(timeout=pt):
                    r = self.rc.add(obj)
            res = "self" if r is obj else ("none" if r is None else "other")
        except Exception as e:  # noqa: BLE001
            res = f"exc:{type(e).__name__}:{e}"
        finally:
            self.adopting = outer
        self.log.append(("add", slot, self.loop.time(), pt, res))

    def do_pop(self, ident: int, via: str) -> None:
        prefix_i, number = self.m.idents[ident]
        prefix = self.m.prefixes[prefix_i]
        try:
            if via == "handler-fails":
                ov = self.overlays[prefix_i]
                n = len(ov.got)
                try:
                    ov.on_response_failing(None, FakePayload(number))
                except CallbackFailure:
                    pass
                if len(ov.got) == n:
                    raise KeyError("handler not invoked")
                c = ov.got[-1]
            elif via == "handler":
                ov = self.overlays[prefix_i]
                n = len(ov.got)
                out = ov.on_response(None, FakePayload(number))
                if len(ov.got) == n + 1 and out == "handled":
                    c = ov.got[-1]
                elif len(ov.got) == n and out is None:
                    raise KeyError("handler not invoked")
                else:
                    raise RuntimeError(f"retrieve_cache wrapper returned {out!r} / called the handler "
                                       f"{len(ov.got) - n} times")
            elif via == "class":
                c = self.rc.pop(self.m.classes[prefix_i], number)
            else:
                c = self.rc.pop(prefix, number)
            res = self.slot_of(c)
        except KeyError:
            res = "KeyError"
        except Exception as e:  # noqa: BLE001
            res = f"exc:{type(e).__name__}:{e}"
        if isinstance(res, int):
            # the response handler completes the request's future, as every handler in the library does
            f = self.futs[res]
            if f is not None and not f.done():
                f.set_result(RESPONSE)
        self.log.append(("pop", ident, self.loop.time(), res, via))

    def do_query(self, ident: int) -> None:
        """What a callback sees when it looks an identity up (used from inside on_timeout)."""
        prefix_i, number = self.m.idents[ident]
        prefix, cls = self.m.prefixes[prefix_i], self.m.classes[prefix_i]
        has = bool(self.rc.has(prefix, number)) or bool(self.rc.has(cls, number))
        g = self.rc.get(prefix, number)
        try:
            cls(self.rc, number, 1.0)
            refused = False
        except RuntimeError:
            refused = True
        self.log.append(("query", ident, self.loop.time(), has, None if g is None else self.slot_of(g), refused))

    def do_wait(self, ident: int, timeout) -> None:  # noqa: ANN001
        """Somebody wants to be told when this identity gets registered.  Only observes: never claims."""
        prefix_i, number = self.m.idents[ident]
        try:
            f = self.rc.wait_for(self.m.prefixes[prefix_i], number, timeout)
            self.waits.append(f)  # the caller holds on to it
            res = "pending" if not f.done() else ("cancelled" if f.cancelled() else
                                                  ("found" if f.result() is not None else "none"))
        except Exception as e:  # noqa: BLE001
            res = f"exc:{type(e).__name__}:{e}"
        self.log.append(("wait", ident, self.loop.time(), res))

    def do_clear(self) -> None:
        self.rc.clear()
        self.log.append(("clear", self.loop.time()))

    async def _shutdown(self) -> None:
        self.log.append(("shutdown-begin", self.loop.time()))
        await self.rc.shutdown()
        self.log.append(("shutdown-end", self.loop.time()))

    def do_shutdown(self) -> None:
        self.sd_task = self.loop.create_task(self._shutdown())

    def run_op(self, ev: tuple) -> None:
        kind = ev[0]
        if kind == "add":
            self.do_add(ev[1], None)
        elif kind == "add_pt":
            self.do_add(ev[1], ev[2])
        elif kind == "pop":
            self.do_pop(ev[1], "name")
        elif kind == "pop_cls":
            self.do_pop(ev[1], "class")
        elif kind == "resp":
            self.do_pop(ev[1], "handler")
        elif kind == "resp_fails":
            self.do_pop(ev[1], "handler-fails")
        elif kind == "wait":
            self.do_wait(ev[1], ev[2])
        elif kind == "clear":
            self.do_clear()
        elif kind == "shutdown":
            self.do_shutdown()
        else:
            raise ValueError(ev)

    # --- feeding the reference ---------------------------------------------------------------------
    def consume(self) -> None:
        while self.consumed < len(self.log):
            e = self.log[self.consumed]
            self.consumed += 1
            self.viol.extend(self.ref.observe(e))

    def fut_status(self, slot: int):  # noqa: ANN201
        f = self.futs[slot]
        if f is None:
            return None
        if not f.done():
            return ("pending",)
        if f.cancelled():
            return ("cancelled",)
        if f.exception() is not None:
            return ("exception", f.exception() is self.fut_value(slot), type(f.exception()).__name__)
        r = f.result()
        if r is self.fut_value(slot) and r is not None:
            return ("timeout-value",)
        return ("result", r if isinstance(r, (str, type(None))) else type(r).__name__)


# ------------------------------------------------------------------------------------------------
# the model
# ------------------------------------------------------------------------------------------------

class Model(core.BfsModel):
    def __init__(self, name: str, slots: list[SlotSpec], seed: int, idents: list | None = None,
                 io_pop: bool = True, pt_values: tuple = (0.0,), handler: bool = False, waits: tuple = ()) -> None:
        """
        idents: (prefix index, number offset) per identity (default: one prefix, distinct numbers).
        handler: also pop through pop(cls, number) and through a retrieve_cache-decorated message handler, the latter
                 with a matching and with a never-registered ("ghost") identifier.
        waits: one wait_for(prefix, number, timeout) event per identity and per listed timeout (None = no timeout).
        """
        self.name, self.slots, self.seed = name, slots, seed
        self.base = 7 + 1000 * (seed % 60)
        n_ident = max(s.ident for s in slots) + 1
        self.ident_spec = [tuple(x) for x in (idents or [(0, i) for i in range(n_ident)])]
        assert len(self.ident_spec) == n_ident
        self.idents = [(p, self.base + n) for p, n in self.ident_spec]
        self.n_ident = n_ident
        self.ghost = None
        if handler:
            self.idents.append((0, self.base + 99))
            self.ghost = n_ident
        self.prefixes = [f"c10-{chr(97 + (seed + p) % 26)}" + (":7" if p else "")
                         for p in range(max(p for p, _ in self.idents) + 1)]
        self.classes = [make_cache_class(p) for p in self.prefixes]
        self.overlay_classes = [make_overlay_class(c) for c in self.classes]
        self.fut_values = [{None: None, "default": None, "value": "timeout-value",
                            "exception": RuntimeError("request timed out")}[s.future] for s in slots]
        self.io_pop, self.pt_values, self.handler = io_pop, tuple(pt_values), handler
        self.waits = tuple(waits)
        S, I = range(len(slots)), range(n_ident)  # noqa: E741
        al: list = [("iter",), ("tick",)]
        al += [("add", s) for s in S]
        al += [("add_pt", s, pt) for s in S for pt in self.pt_values]
        al += [("pop", i) for i in I]
        if io_pop:
            al += [("io", ("pop", i)) for i in I]
        if handler:
            al += [("pop_cls", i) for i in I]
            al += [("resp", i) for i in [*I, self.ghost]]
            al += [("resp_fails", i) for i in I]
        al += [("wait", i, t) for i in I for t in self.waits]
        al += [("clear",), ("shutdown",), ("io", ("shutdown",))]
        self.alphabet = al
        # numbers that must NOT be the same identity as a registered one although they agree with it modulo 2**16 /
        # 2**32 (wire fields are 16 bit, circuit ids 32 bit: a table key that folds the number makes them collide)
        own = {(p, n) for p, n in self.idents}
        self.aliases = [(p, n + d) for p, n in self.idents[:n_ident] for d in (65536, 2 ** 32)
                        if (p, n + d) not in own]

    def params(self) -> dict:
        return {"name": self.name, "seed": self.seed, "slots": [s.params() for s in self.slots],
                "identities": [list(x) for x in self.ident_spec], "io_pop": self.io_pop,
                "passthrough_timeouts": list(self.pt_values), "handler": self.handler, "waits": list(self.waits),
                "identity_names": [[self.prefixes[p], n] for p, n in self.idents]}

    @classmethod
    def from_params(cls, p: dict) -> "Model":
        slots = [SlotSpec(x["ident"], x["delay"], x["future"], x.get("pops"), x.get("script")) for x in p["slots"]]
        return cls(p["name"], slots, p["seed"], p["identities"], p["io_pop"], tuple(p["passthrough_timeouts"]),
                   p["handler"], tuple(p.get("waits", ())))

    # --- BfsModel ----------------------------------------------------------------------------------
    def initial(self) -> World:
        return World(self)

    def dispose(self, w: World) -> None:
        # same as VirtualLoop.shutdown(), but without scanning asyncio's global task registry: every task of this
        # loop went through our task factory
        loop = w.loop
        try:
            for _ in range(5):
                pending = [t for t in w.created if not t.done()]
                if not pending:
                    break
                for t in pending:
                    t.cancel()
                try:
                    loop.settle(10000)
                except vloop.LoopStuck:
                    break
            for t in w.created:
                if t.done() and not t.cancelled():
                    t.exception()
        finally:
            loop._ready.clear()
            loop._scheduled.clear()
            loop._io.clear()
            asyncio.events._set_running_loop(None)
            if not loop.is_closed():
                loop.close()
            w.tasks.clear()
            w.created.clear()
            w.objs = []
            w.futs = []
            w.waits = []
            w.overlays = []

    def enabled(self, w: World):  # noqa: ANN201
        out = self._enabled(w)
        # A state in which reference and implementation already disagree (now, or in what its pending timers will do)
        # is not expanded: everything after it is a consequence.  ``w`` is a scratch world (core disposes it).
        if out and (w.viol or self.state_violations(w)):
            return []
        return out

    def _enabled(self, w: World) -> list:
        busy = w.loop.has_work()
        nt = w.loop.next_timer()
        can_tick = (not busy) and nt is not None and nt - w.loop.time() <= HORIZON
        out = []
        for i, ev in enumerate(self.alphabet):
            k = ev[0]
            if k == "iter":
                if busy:
                    out.append(i)
            elif k == "tick":
                if can_tick:
                    out.append(i)
            elif k == "shutdown" or (k == "io" and ev[1][0] == "shutdown"):
                if not w.sd_requested:
                    out.append(i)
            else:
                out.append(i)
        return out

    def apply(self, w: World, ev):  # noqa: ANN001, ANN201
        ev = _tup(ev)
        start_log = len(w.log)
        w.last_viol_start = len(w.viol)
        k = ev[0]
        if k == "iter":
            w.loop.iteration()
        elif k == "tick":
            nt = w.loop.next_timer()
            if nt is not None and not w.loop.has_work():
                seams.CLOCK.set(nt)
        elif k == "io":
            if ev[1][0] == "shutdown":
                w.sd_requested = True
            w.loop.io_event(w.run_op, ev[1])
        else:
            if k == "shutdown":
                w.sd_requested = True
            w.run_op(ev)
        w.consume()
        return tuple(w.log[start_log:])

    # --- digest ------------------------------------------------------------------------------------
    def digest(self, w: World):  # noqa: ANN201, C901
        loop, rc = w.loop, w.rc
        now = loop.time()

        def off(t: float):  # noqa: ANN202
            d = round(t - now, 6)
            return d if d <= 2 * HORIZON else "far"

        loop.next_timer()  # drops cancelled timers at the head of the heap, as the next _run_once would
        live = w.live_tasks()
        # pass 1: every task anything still refers to
        enc: dict = {id(t): t for t in live}
        handles = [*loop._ready, *loop._io]
        for h in handles:
            cb = h._callback
            s = getattr(cb, "__self__", None)
            if isinstance(s, asyncio.Future):
                enc[id(s)] = s
            for a in (h._args or ()):
                if isinstance(a, asyncio.Task):
                    enc[id(a)] = a
        for t in list(rc._pending_tasks.values()):
            enc[id(t)] = t
        # canonical labels: (slot, rank among the still-referenced tasks of that slot by creation order)
        per_slot: dict = {}
        for tid in enc:
            if tid in w.tasks:
                slot, seq = w.tasks[tid]
                per_slot.setdefault(slot, []).append((seq, tid))
        label: dict = {}
        for slot, lst in per_slot.items():
            for rank, (_, tid) in enumerate(sorted(lst)):
                label[tid] = ("T", slot, rank)

        def tl(t):  # noqa: ANN001, ANN202
            if id(t) in label:
                return label[id(t)]
            if isinstance(t, asyncio.Task):
                c = t.get_coro()
                nm = getattr(c, "__qualname__", type(c).__name__)
                return ("task", nm, fstate(t))
            return ("fut", fstate(t), tuple(tl(c) for c in getattr(t, "_children", ()) or ()))

        def fstate(f) -> str:  # noqa: ANN001
            if not f.done():
                return "P"
            if f.cancelled():
                return "C"
            return "E" if f.exception() is not None else "D"

        def arg(a):  # noqa: ANN001, ANN202
            if isinstance(a, asyncio.Future):
                return tl(a)
            if isinstance(a, (tuple, str, int, float)) or a is None:
                return a
            return type(a).__name__

        waiter_owner = {}
        tasks_desc = []
        for t in live:
            c = t.get_coro()
            chain = []
            while c is not None and len(chain) < 6:
                fr = getattr(c, "cr_frame", None)
                code = getattr(c, "cr_code", None)
                chain.append((code.co_name if code else type(c).__name__, fr.f_lasti if fr else None))
                c = getattr(c, "cr_await", None)
            fw = t._fut_waiter
            if fw is not None:
                waiter_owner[id(fw)] = tl(t)
            fwd = None if fw is None else (tl(fw) if hasattr(fw, "_children") else fstate(fw))
            tasks_desc.append((tl(t), tuple(chain), bool(t._must_cancel), fwd, t.cancelling()))
        tasks_desc.sort(key=repr)

        timers = []
        for h in loop._scheduled:  # raw heap layout (cancelled entries included): ties are broken by it
            if h._cancelled:
                timers.append(("x", off(h._when)))
            else:
                a0 = h._args[0] if h._args else None
                timers.append((off(h._when), getattr(h._callback, "__name__", "?"),
                               waiter_owner.get(id(a0)), fstate(a0) if isinstance(a0, asyncio.Future) else None))

        def hd(h):  # noqa: ANN001, ANN202
            if h._cancelled:
                return ("x",)
            cb = h._callback
            s = getattr(cb, "__self__", None)
            if isinstance(s, asyncio.Future):
                return ("step", type(cb).__name__, tl(s), tuple(arg(a) for a in (h._args or ())))
            if isinstance(s, World):
                return ("op", tuple(arg(a) for a in (h._args or ())))
            return (getattr(cb, "__qualname__", type(cb).__name__), tuple(arg(a) for a in (h._args or ())))

        impl = (
            tuple((k, w.slot_of(v)) for k, v in rc._identifiers.items()),
            # anonymous names end in TaskManager's running counter, which only has to make them unique
            tuple((w.slot_of(k) if isinstance(k, NumberCache) else str(k).rstrip("0123456789"), tl(t), t.done())
                  for k, t in list(rc._pending_tasks.items())),
            rc._shutdown, rc._timeout_override, None if rc._timeout_filters is None else len(list(rc._timeout_filters)),
            tuple(sorted((k, fstate(f)) for k, f in rc._waiters.items())), rc.lock.locked(), len(rc._shutdown_tasks),
        )
        futs = tuple((w.fut_status(i), sum(1 for f, _ in o.managed_futures if not f.done()))
                     for i, o in enumerate(w.objs))
        return (
            impl, tuple(tasks_desc), tuple(timers), tuple(hd(h) for h in loop._ready), tuple(hd(h) for h in loop._io),
            futs, w.ref.canonical(now), w.sd_requested, bool(w.viol), len(loop.exceptions),
        )

    # --- oracle ------------------------------------------------------------------------------------
    def snapshot_checks(self, w: World, tag: str) -> list:  # noqa: C901
        """Everything that can be asked without changing the request cache."""
        v: list = []
        rc, ref = w.rc, w.ref
        now = w.loop.time()
        for i in range(self.n_ident):
            p_i, number = self.idents[i]
            prefix, cls = self.prefixes[p_i], self.classes[p_i]
            holder = ref.holder(i)
            want = holder is not None
            wants = "outstanding" if want else "free"
            got = (rc.has(prefix, number), rc.has(cls, number))
            g = rc.get(prefix, number)
            table_ok = got == (want, want) and (g is w.objs[holder] if want else g is None)
            if not table_ok:
                v.append((f"identity-table|want:{wants}", f"has({prefix!r},{number}) / has(cls) = {got}, get() = {g!r}, "
                          f"but the identity is {'held by the outstanding slot %d' % holder if want else 'free'} "
                          f"({ref.describe(i)}) [{tag}]"))
            # duplicate guard of the constructor
            try:
                cls(rc, number, 1.0)
                refused = False
            except RuntimeError:
                refused = True
            if refused != want and table_ok:
                v.append((f"ctor-guard|want:{wants}", f"NumberCache({prefix!r},{number}) "
                          f"{'refused' if refused else 'accepted'} while the identity is {wants} [{tag}]"))
        # identities are (prefix, number) pairs with the number taken literally: a number that merely agrees with an
        # outstanding one modulo 2**16 / 2**32 names a different request, of which there is none
        for p_i, number in self.aliases:
            prefix, cls = self.prefixes[p_i], self.classes[p_i]
            got = (rc.has(prefix, number), rc.has(cls, number), rc.get(prefix, number))
            if got != (False, False, None):
                v.append(("identity-alias", f"nothing was ever registered as ({prefix!r},{number}) but has / has(cls) / "
                          f"get = {got} [{tag}]"))
                break
        # RandomNumberCache never picks an identity that is outstanding (its random() is forced onto ours)
        for p_i, prefix in enumerate(self.prefixes):
            numbers = [n for (pp, n) in self.idents[:self.n_ident] if pp == p_i]
            if not numbers:
                continue
            seq = [*numbers, numbers[0] + 50]
            state = {"i": 0}

            def fake_random(seq=seq, state=state) -> float:  # noqa: ANN001
                n = seq[state["i"] % len(seq)]
                state["i"] += 1
                return (n + 0.5) / 2 ** 16

            saved = rq_mod.random
            rq_mod.random = fake_random
            try:
                try:
                    got_n = Probe(rc, prefix).number
                except RuntimeError:
                    got_n = None
            finally:
                rq_mod.random = saved
            taken = {self.idents[i][1] for i in range(self.n_ident)
                     if self.idents[i][0] == p_i and ref.holder(i) is not None}
            if got_n is None or got_n in taken:
                v.append(("random-number-guard", f"RandomNumberCache({prefix!r}) "
                          f"{'raised RuntimeError' if got_n is None else 'chose %d' % got_n} while {sorted(taken)} are "
                          f"outstanding and random() offers {seq} in turn [{tag}]"))
        # tied futures
        for s in range(len(self.slots)):
            want_f = ref.future_expectation(s)
            got_f = w.fut_status(s)
            if want_f is not None and got_f is not None and not _fut_ok(want_f, got_f):
                v.append((f"future|{ref.state_name(s)}|want:{want_f[0]}|got:{got_f[0]}",
                          f"slot {s} ({ref.state_name(s)}): tied future is {got_f}, the statement implies {want_f} [{tag}]"))
        # a request whose deadline has passed must not be outstanding any more once the loop is idle
        if not w.loop.has_work():
            for s in range(len(self.slots)):
                st, deadline = ref.state(s), ref.deadline(s)
                if st == OUTSTANDING and deadline is not None and deadline <= now - 1e-9:
                    v.append((f"never-resolved|{ref.describe_slot(s)}", f"slot {s} is still outstanding at t={now} "
                              f"although its timeout was due at t={deadline} and the loop is idle [{tag}]"))
        foreign = [c for c in w.loop.exceptions if not isinstance(c.get("exception"), CallbackFailure)]
        if foreign:
            ctx = foreign[0]
            v.append((f"loop-exception:{type(ctx.get('exception')).__name__}", f"asyncio exception handler: "
                      f"{ctx.get('message')} {ctx.get('exception')!r} [{tag}]"))
        if rc._timeout_override is not None or rc._timeout_filters is not None:
            v.append(("passthrough-leak", f"timeout override still {rc._timeout_override!r} outside passthrough() [{tag}]"))
        return v

    def run_out(self, w: World) -> list:
        """Let everything that is pending happen (default schedule) and see how each request ends."""
        v: list = []
        start = len(w.viol)
        loop = w.loop
        for _ in range(RUNOUT_CAP):
            loop.settle(1000)
            w.consume()
            nt = loop.next_timer()
            if nt is None or nt - loop.time() > HORIZON:
                break
            seams.CLOCK.set(nt)
        else:
            v.append(("runout-cap", "run-out did not reach quiescence"))
        v.extend((k, what + " [run-out]") for k, what in w.viol[start:])
        if v:
            return v
        v.extend(self.snapshot_checks(w, "run-out"))
        if v:
            return v
        for s in range(len(self.slots)):
            if w.ref.state(s) == OUTSTANDING:
                v.append((f"never-resolved|{w.ref.describe_slot(s)}", f"slot {s} is still outstanding after every "
                          f"timer within {HORIZON}s fired (t={loop.time()}, deadline {w.ref.deadline(s)}) [run-out]"))
        return v

    def state_violations(self, w: World) -> list:
        """Perturbs w (run-out).  Only the earliest kind of disagreement is reported: the rest follows from it."""
        return self.snapshot_checks(w, "now") or self.run_out(w)

    def check(self, w: World, hist, ev, obs) -> list:  # noqa: ANN001
        v = list(w.viol[w.last_viol_start:]) or self.state_violations(w)
        seen, out = set(), []
        for k, what in v:
            if k not in seen:
                seen.add(k)
                out.append((k, what))
        return out


def _tup(x):  # noqa: ANN001, ANN202
    return tuple(_tup(i) for i in x) if isinstance(x, (list, tuple)) else x


def _fut_ok(want: tuple, got: tuple) -> bool:
    kind = want[0]
    if kind == "pending":
        return got == ("pending",)
    if kind == "cancelled":
        return got == ("cancelled",)
    if kind == "response":
        return got == ("result", RESPONSE)
    if kind == "timeout":
        mode = want[1]
        if mode == "exception":
            return got[0] == "exception" and got[1] is True
        if mode == "default":
            return got == ("result", None)
        return got == ("timeout-value",)
    return True


# ------------------------------------------------------------------------------------------------
# configurations
# ------------------------------------------------------------------------------------------------

def configs(ctx: core.Ctx) -> list[tuple[Model, int]]:
    s = ctx.seed
    one = [SlotSpec(0, 1.0, "value")]
    popper = [SlotSpec(0, 1.0, "value"), SlotSpec(1, 1.0, None, pops=0)]
    twins = [SlotSpec(0, 1.0, "exception"), SlotSpec(0, 2.0, "default")]
    three = [SlotSpec(0, 1.0, "value"), SlotSpec(1, 2.0, None, pops=0), SlotSpec(0, 3.0)]
    four = [SlotSpec(0, 1.0, "value"), SlotSpec(1, 1.0, None, pops=0), SlotSpec(0, 2.0, "default"),
            SlotSpec(2, 3.0, "exception")]
    four_ids = [(0, 0), (0, 1), (1, 0)]  # the last one: other prefix, same number as the first
    # callbacks that deal with their *own* identity: look it up and try to claim it / retry with a new object
    selfpop = [SlotSpec(0, 1.0, "value", script=[("query", 0), ("pop", 0), ("query", 0)])]
    retry = [SlotSpec(0, 1.0, "value", script=[("query", 0), ("add", 1), ("query", 0)]), SlotSpec(0, 2.0, "default")]
    popretry = [SlotSpec(0, 1.0, "exception", script=[("pop", 0), ("add", 1), ("query", 0)]), SlotSpec(0, 2.0, "value")]
    # a callback that fails: the request still timed out exactly once, so its tied futures are completed, a later pop
    # finds nothing, and the other requests are untouched (B pops A first, then fails)
    raiser = [SlotSpec(0, 1.0, "value", script=[("raise",)]), SlotSpec(1, 1.0, "exception", script=[("pop", 0), ("raise",)])]
    # distinct identities whose numbers agree modulo 2**16 (popper) / 2**16 and 2**32 (three)
    wide2 = [(0, 0), (0, 65536)]
    wide3 = [(0, 0), (0, 2 ** 32)]
    waiter = [SlotSpec(0, 1.0, "value")]
    waiter2 = [SlotSpec(0, 1.0, "exception"), SlotSpec(0, 2.0, "default")]
    if ctx.thorough:
        return [
            (Model("one", one, s, pt_values=(0.0, 0.5), handler=True), 12),
            (Model("popper", popper, s, wide2), 8),
            (Model("twins", twins, s), 8),
            (Model("three", three, s, wide3, io_pop=False), 7),
            (Model("four", four, s, four_ids, io_pop=False), 6),
            (Model("selfpop", selfpop, s), 10),
            (Model("retry", retry, s), 7),
            (Model("popretry", popretry, s), 7),
            (Model("waiter", waiter, s, waits=(None, 1.0)), 7),
            (Model("raiser", raiser, s), 8),
            (Model("waiter-twins", waiter2, s, io_pop=False, waits=(None,)), 7),
        ]
    return [
        (Model("one", one, s, pt_values=(0.0, 0.5), handler=True), 7),
        (Model("popper", popper, s, wide2), 5),
        (Model("twins", twins, s), 5),
        (Model("four", four, s, four_ids, io_pop=False), 4),
        (Model("selfpop", selfpop, s), 6),
        (Model("retry", retry, s), 4),
        (Model("popretry", popretry, s), 4),
        (Model("waiter", waiter, s, waits=(None, 1.0)), 5),
        (Model("raiser", raiser, s), 5),
    ]


def run(ctx: core.Ctx) -> core.Report:
    total_states = total_trans = outcomes = 0
    runs, violations, samples = [], [], []
    exhaustive = True
    for model, depth in configs(ctx):
        r = core.bfs(model, depth, ctx.jobs, chunk=16)
        total_states += r["states"]
        total_trans += r["transitions"]
        outcomes += r["distinct_outcomes"]
        exhaustive &= not r["capped"]
        runs.append({"world": model.params(), "alphabet_size": len(model.alphabet), "depth": r["completed_depth"],
                     "states": r["states"], "transitions": r["transitions"], "levels": r["levels"],
                     "distinct_observations": r["distinct_outcomes"], "fixpoint": r["fixpoint"]})
        samples.extend(r["samples"][:1])
        for v in r["violations"]:
            v.replay = {"world": model.params(), "history": v.replay["history"]}
            violations.append(v)
    # one defect shows up in several worlds: keep the shortest history per key
    best: dict = {}
    for v in violations:
        if v.key not in best or len(v.replay["history"]) < len(best[v.key].replay["history"]):
            best[v.key] = v
    ship_cov, ship_viol = run_shipped(ctx)
    for v in ship_viol:
        best.setdefault(v.key, v)
    cov = {
        "states": total_states, "transitions": total_trans,
        "traces_validated_against_impl": total_trans + ship_cov["executions"],
        "shipped_cache_classes": ship_cov, "not_covered_cache_classes": ship_cov["not_covered_cache_classes"],
        "samples": samples, "exhaustive": exhaustive, "distinct_outcomes": outcomes, "runs": runs,
        "horizon_s": HORIZON,
        "explanation": "BFS over schedules (API call / one loop iteration / time passes to the next timer / queued I/O "
                       "callback) of the real RequestCache+TaskManager on a virtual asyncio loop; every transition "
                       "is executed on the implementation, observed calls and callbacks are fed in order to a "
                       "per-request state machine, has/get/constructor guards and tied futures are compared in every "
                       "state, and every state is additionally run to quiescence to see how its requests end.",
    }
    return core.Report(LEVEL, cov, sorted(best.values(), key=lambda v: v.key), ASSUMPTIONS)


ASSUMPTIONS = [
    "API calls land between loop iterations (= a callback that ran last in the previous iteration) or as an I/O "
    "callback of the next iteration; time only passes when the loop is idle; nothing is inserted between two handles "
    "that one callback scheduled back to back (a real loop cannot do that either)",
    "the response handler completes the future of the request it claimed (as every handler in the library does); "
    "futures of requests removed by clear() are not checked (the statement is silent)",
    "on_timeout callbacks that pop do catch KeyError; a callback that retries registers *another* cache object under "
    "the same identity (re-adding the very object whose timeout task is still running is not explored); only the "
    "first object of such a pair retries, so every retry chain ends",
    "cache objects are re-added as the same object (the API allows it; the library itself always builds a new one)",
    "wait_for() is explored as an observer only (worlds waiter*): what the waiter's future gets is not checked, the "
    "statement is silent about it; class filters of passthrough() and timeouts longer than 3 s are not explored",
    "shipped-class family: faults are single (thorough: pairs) datagram faults on the first exchange with FIFO delivery "
    "otherwise; the exit's DHT provider is a stub; add/pop of every RequestCache and on_timeout of every registered "
    "cache are wrapped by instance attributes (the originals are called); E2E/Link/wallet caches: see "
    "not_covered_cache_classes",
    "the harness keeps strong references to the timeout tasks it labels (TaskManager only keeps weak ones); a pending "
    "task is always strongly referenced by the loop's timer anyway",
]


# ------------------------------------------------------------------------------------------------
# second family: the shipped cache classes in their owner communities (mc/ref/c10_shipped.py)
# ------------------------------------------------------------------------------------------------

def _shipped_worker(chunk: list) -> list:
    out = []
    for name, seed, plan in chunk:
        try:
            r = shipped.execute(name, seed, plan)
            out.append((name, plan, r["violations"], r["outcomes"], r["call"]))
        except Exception as e:  # noqa: BLE001
            import traceback
            out.append((name, plan, [(f"harness-crash:{name}:{type(e).__name__}", traceback.format_exc()[-700:])], [], None))
    return out


def run_shipped(ctx: core.Ctx) -> tuple[dict, list]:
    import json
    items, per_scn = [], {}
    for name in shipped.SCENARIOS:
        base = shipped.execute(name, ctx.seed, {})
        plans = shipped.plans_for(name, base["exchange"], base["draws"], ctx.thorough)
        per_scn[name] = {"exchange_datagrams": base["exchange"], "random_draws": base["draws"], "executions": len(plans),
                         "undisturbed_call": base["call"]}
        items += [(name, ctx.seed, p) for p in plans]
    res = core.pmap(_shipped_worker, items, ctx.jobs, chunk=6)
    per_class: dict = {}
    found: dict = {}
    for name, plan, viol, outcomes, _call in res:
        for label, how in outcomes:
            d = per_class.setdefault(label, {})
            d[how] = d.get(how, 0) + 1
        for k, what in viol:
            key = "shipped|" + k
            cand = (len(json.dumps(plan)), json.dumps(plan, sort_keys=True), name)
            if key not in found or cand < found[key][0]:
                found[key] = (cand, core.Violation(key, f"[{name} {json.dumps(plan)}] {what}",
                                                   {"family": "shipped", "scenario": name, "seed": ctx.seed, "plan": plan}))
    all_classes = shipped.shipped_cache_classes()
    cov = {
        "executions": len(res), "scenarios": per_scn, "outcomes_per_class": per_class,
        "classes_shipped": all_classes, "classes_registered": sorted(per_class),
        "classes_seen_claimed_and_timed_out": sorted(c for c, d in per_class.items()
                                                     if any(h.startswith("claimed") for h in d)
                                                     and any(h.startswith("timed-out") for h in d)),
        "not_covered_cache_classes": sorted(set(all_classes) - set(per_class)),
        "bounds": "per scenario: undisturbed; every single drop/duplicate/deliver-after-all-timeouts of each datagram of "
                  "the exchange; every withdrawal alone and with every single drop; every equal pair among the first "
                  f"{shipped.MAX_EQUAL_DRAWS} random draws, with and without losing everything; everything lost"
                  + ("; every pair of datagram faults" if ctx.thorough else ""),
    }
    return cov, [v for _, v in (found[k] for k in sorted(found))]


def replay(ctx: core.Ctx, data: dict) -> list:
    if data.get("family") == "shipped":
        r = shipped.execute(data["scenario"], data["seed"], data["plan"])
        return [core.Violation("shipped|" + k, what) for k, what in r["violations"]]
    m = Model.from_params(data["world"])
    hist = [_tup(e) for e in data["history"]]
    seams.reseed(("bfs", m.seed))
    w = m.initial()
    out: list = []
    try:
        for i, ev in enumerate(hist):
            obs = m.apply(w, ev)
            if i == len(hist) - 1:
                out = [core.Violation(k, what) for k, what in m.check(w, hist[:i], ev, obs)]
    finally:
        m.dispose(w)
    return out
