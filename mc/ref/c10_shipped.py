"""
C10, second family: the cache classes the library SHIPS, in the communities that own them.

For every covered ``NumberCache`` subclass a *scenario* drives its real owner community (real overlays on SimNet /
TunnelWorld, real datagrams) through the minimal exchange that registers it.  Around that exchange the explorer
enumerates, exhaustively within the stated bounds,

  * every single datagram fault on the exchange: drop / duplicate / deliver only after every timeout has fired,
  * every scenario-specific withdrawal of the owner state while the request is outstanding (swarm left, circuit
    removed, ...), alone and combined with every single drop,
  * every way to make two of the first random draws of ``ipv8.requestcache.random`` equal (k-th draw := j-th draw),
    with and without losing every datagram.

The oracle is generic: a ``Monitor`` wraps ``add``/``pop`` of every RequestCache in the world and ``on_timeout`` of every
registered cache object, and after the horizon demands the statement's exactly-once outcome for each of them.
"""
from __future__ import annotations

import asyncio
import traceback

import ipv8.requestcache as rq_mod
from ipv8.requestcache import NumberCache

from .. import fixtures, simnet, tunnelworld

EPS = 1e-6
H1 = 70.0     # longest shipped timeout is 60 s (CreatedRequestCache); "late" datagrams are released after H1
H2 = 70.0
MAX_EQUAL_DRAWS = 5


# ------------------------------------------------------------------------------------------------------------------
# which cache classes does the tree under test ship?
# ------------------------------------------------------------------------------------------------------------------

ABSTRACT = {"NumberCache", "RandomNumberCache", "NumberCacheWithName", "RandomNumberCacheWithName", "HashCache",
            "PeerCache"}
DHT_REQUEST_TYPES = ("ping", "find", "store", "store-peer", "connect-peer")


def shipped_cache_classes() -> list[str]:
    """Names of all concrete NumberCache subclasses defined under ipv8.* (not tests); dht Request split by msg type."""
    import importlib
    import pkgutil

    import ipv8
    for m in pkgutil.walk_packages(ipv8.__path__, "ipv8."):
        if ".test" in m.name or m.name.endswith(".__main__") or "windows" in m.name or "REST" in m.name:
            continue
        try:
            importlib.import_module(m.name)
        except Exception:  # noqa: BLE001, S112
            continue
    out, todo, seen = [], [NumberCache], set()
    while todo:
        c = todo.pop()
        for s in c.__subclasses__():
            if s in seen:
                continue
            seen.add(s)
            todo.append(s)
            if s.__module__.startswith("ipv8.") and ".test" not in s.__module__ and s.__name__ not in ABSTRACT:
                if s.__module__ == "ipv8.dht.community" and s.__name__ == "Request":
                    out.extend(f"dht.Request[{t}]" for t in DHT_REQUEST_TYPES)
                else:
                    out.append(f"{s.__module__.split('.')[-2]}.{s.__name__}")
    return sorted(out)


def class_label(cache) -> str:  # noqa: ANN001
    c = type(cache)
    if c.__module__ == "ipv8.dht.community" and c.__name__ == "Request":
        return f"dht.Request[{cache.prefix}]"
    return f"{c.__module__.split('.')[-2]}.{c.__name__}"


# ------------------------------------------------------------------------------------------------------------------
# the generic exactly-once monitor
# ------------------------------------------------------------------------------------------------------------------

class Rec:
    def __init__(self, owner: str, cache, t: float) -> None:  # noqa: ANN001
        self.owner, self.cache, self.t_add = owner, cache, t
        self.label = class_label(cache)
        self.prefix, self.number = cache.prefix, cache.number
        self.delay = float(cache.timeout_delay)
        self.claims: list = []
        self.timeouts: list = []


class Monitor:
    def __init__(self, loop) -> None:  # noqa: ANN001
        self.loop = loop
        self.recs: list[Rec] = []
        self.by_id: dict = {}
        self.refused: list = []
        self.misses: list = []
        self.rcs: list = []

    def attach(self, owner: str, rc) -> None:  # noqa: ANN001
        orig_add, orig_pop = rc.add, rc.pop
        mon = self

        def add(cache):  # noqa: ANN001, ANN202
            r = orig_add(cache)
            t = mon.loop.time()
            if r is cache:
                rec = Rec(owner, cache, t)
                mon.recs.append(rec)
                mon.by_id[id(cache)] = rec
                inner = cache.on_timeout

                def counted() -> None:
                    rec.timeouts.append(mon.loop.time())
                    return inner()
                cache.on_timeout = counted
            else:
                mon.refused.append((owner, class_label(cache), t, bool(rc._shutdown)))
            return r

        def pop(prefix, number):  # noqa: ANN001, ANN202
            if not isinstance(prefix, str):
                return orig_pop(prefix, number)  # resolves to pop(prefix.name, number): counted there
            try:
                c = orig_pop(prefix, number)
            except KeyError:
                mon.misses.append((owner, prefix, number, mon.loop.time()))
                raise
            rec = mon.by_id.get(id(c))
            if rec is not None:
                rec.claims.append(mon.loop.time())
            return c

        rc.add, rc.pop = add, pop
        self.rcs.append((owner, rc))

    def judge(self) -> list:
        """[(key, what)] - the statement's exactly-once outcome for every registered cache, after the horizon."""
        v = []
        now = self.loop.time()
        rc_of = dict(self.rcs)
        for r in self.recs:
            rc = rc_of[r.owner]
            k = len(r.claims) + len(r.timeouts)
            who = f"{r.label} ({r.prefix}:{r.number}) registered by {r.owner} at t={r.t_add:g}"
            if k == 0:
                if rc._shutdown or now < r.t_add + r.delay + EPS:
                    continue
                v.append((f"never-resolved:{r.label}", f"{who}: neither claimed nor timed out by t={now:g} "
                          f"(timeout {r.delay:g} s)"))
                continue
            if k > 1:
                v.append((f"resolved-twice:{r.label}|claims={len(r.claims)},timeouts={len(r.timeouts)}",
                          f"{who}: claimed at {r.claims}, on_timeout ran at {r.timeouts}"))
            if r.timeouts and r.timeouts[0] < r.t_add + r.delay - EPS:
                v.append((f"timeout-early:{r.label}", f"{who}: on_timeout ran at {r.timeouts[0]:g}, due {r.t_add + r.delay:g}"))
            how = "claimed" if r.claims else "timed-out"
            futs = [f for f, _ in r.cache.managed_futures]
            own = getattr(r.cache, "future", None)
            if isinstance(own, asyncio.Future) and all(own is not f for f in futs):
                futs.append(own)
            if any(not f.done() for f in futs):
                v.append((f"future-pending:{r.label}|after:{how}", f"{who}: {how}, but a future tied to it is still "
                          f"pending at t={now:g}"))
            if rc.get(r.prefix, r.number) is r.cache:
                v.append((f"still-in-table:{r.label}|after:{how}", f"{who}: {how}, but get()/has() still find it"))
        for owner, label, t, was_shutdown in self.refused:
            if not was_shutdown:
                v.append((f"request-not-registered:{label}", f"{owner} built a {label} at t={t:g} and add() refused it: "
                          f"the request it belongs to can neither be claimed nor time out"))
        for ctx in self.loop.exceptions:
            e = ctx.get("exception")
            where = "?"
            if e is not None and e.__traceback__ is not None:
                where = traceback.extract_tb(e.__traceback__)[-1].name
            v.append((f"loop-exception:{type(e).__name__}@{where}", f"asyncio exception handler: {ctx.get('message')}: "
                      f"{e!r}"))
        return v

    def outcomes(self) -> list:
        """(class label, how it ended) per registered cache - for coverage accounting."""
        out = []
        for r in self.recs:
            how = "+".join(["claimed"] * len(r.claims) + ["timed-out"] * len(r.timeouts)) or "open"
            late = any(o == r.owner and p == r.prefix and n == r.number and t >= (r.claims + r.timeouts or [1e18])[0]
                       for o, p, n, t in self.misses)
            out.append((r.label, how + ("+later-response-found-nothing" if late else "")))
        return out


# ------------------------------------------------------------------------------------------------------------------
# scenarios
# ------------------------------------------------------------------------------------------------------------------

INFO_HASH = bytes(range(1, 21))


class Ctx:
    def __init__(self, world, ovs: dict) -> None:  # noqa: ANN001
        self.world = world
        self.ov = ovs
        self.mon = Monitor(world.loop)
        for name, o in ovs.items():
            if getattr(o, "request_cache", None) is not None:
                self.mon.attach(name, o.request_cache)
        self.extra: dict = {}


class Scenario:
    name = "?"
    withdrawals: tuple = ()
    horizon = H1          # longer than every timeout the scenario's communities use

    def setup(self, seed: int) -> Ctx:
        raise NotImplementedError

    def act(self, c: Ctx):  # noqa: ANN201
        """Issue the request(s); may return an awaitable that has to finish."""
        raise NotImplementedError

    def withdraw(self, c: Ctx, which: str) -> None:
        raise NotImplementedError


def _tunnel_world(seed: int, cls=None, **settings):  # noqa: ANN001, ANN003, ANN202
    from ipv8.messaging.anonymization.community import TunnelCommunity
    roles = {"A": tunnelworld.RELAY, "R": tunnelworld.RELAY, "X": tunnelworld.EXIT_ALL}
    w = tunnelworld.TunnelWorld(("c10-shipped", seed), roles, community_cls=cls or TunnelCommunity,
                                key_offset=seed % 6, **settings)
    return w


class TunnelBuild(Scenario):
    """A builds A-R-X: RetryRequestCache (A, per hop), CreatedRequestCache (R, X), CreateRequestCache (R)."""

    name = "tunnel-build"
    withdrawals = ("remove-circuit",)

    def setup(self, seed: int) -> Ctx:
        w = _tunnel_world(seed)
        return Ctx(w, w.ov)

    def act(self, c: Ctx):  # noqa: ANN201
        c.extra["circuit"] = c.world.start_circuit("A", ["R", "X"])

    def withdraw(self, c: Ctx, which: str) -> None:
        c.world.nodes["A"].run(c.ov["A"].remove_circuit, c.extra["circuit"].circuit_id, "withdrawn", remove_now=True)


class TunnelPing(Scenario):
    """PingRequestCache of the tunnel community: do_ping over a ready 2-hop circuit."""

    name = "tunnel-ping"
    withdrawals = ("remove-circuit",)

    def setup(self, seed: int) -> Ctx:
        w = _tunnel_world(seed)
        c = Ctx(w, w.ov)
        c.extra["circuit"] = w.build_circuit("A", ["R", "X"])
        return c

    def act(self, c: Ctx):  # noqa: ANN201
        c.world.nodes["A"].run(c.ov["A"].do_ping)

    def withdraw(self, c: Ctx, which: str) -> None:
        c.world.nodes["A"].run(c.ov["A"].remove_circuit, c.extra["circuit"].circuit_id, "withdrawn", remove_now=True)


class TunnelTest(Scenario):
    """TestRequestCache: a speed-test request over a ready circuit (the exit answers)."""

    name = "tunnel-test"
    withdrawals = ("remove-circuit",)

    def setup(self, seed: int) -> Ctx:
        w = _tunnel_world(seed)
        c = Ctx(w, w.ov)
        c.extra["circuit"] = w.build_circuit("A", ["R", "X"])
        return c

    def act(self, c: Ctx):  # noqa: ANN201
        return c.world.nodes["A"].run(c.ov["A"].send_test_request, c.extra["circuit"], 10, 10)

    def withdraw(self, c: Ctx, which: str) -> None:
        c.world.nodes["A"].run(c.ov["A"].remove_circuit, c.extra["circuit"].circuit_id, "withdrawn", remove_now=True)


class _DhtStub:
    """The injected DHT provider of the exit node (the hidden-services code only calls lookup/announce on it)."""

    def __init__(self, answer) -> None:  # noqa: ANN001
        self.answer = answer

    async def lookup(self, info_hash: bytes):  # noqa: ANN201
        return info_hash, list(self.answer)

    async def announce(self, info_hash: bytes, intro_point) -> None:  # noqa: ANN001
        return None

    async def peer_lookup(self, mid: bytes, peer=None) -> None:  # noqa: ANN001
        return None


def _hs_world(seed: int):  # noqa: ANN202
    from ipv8.messaging.anonymization.hidden_services import HiddenTunnelCommunity
    return _tunnel_world(seed, HiddenTunnelCommunity)


class HsRendezvous(Scenario):
    """RPRequestCache: create_rendezvous_point() builds a circuit and asks its last hop to be the rendezvous point."""

    name = "hs-rendezvous"
    withdrawals = ("leave-swarm", "remove-circuits")

    def setup(self, seed: int) -> Ctx:
        w = _hs_world(seed)
        c = Ctx(w, w.ov)
        w.nodes["A"].run(w.ov["A"].join_swarm, INFO_HASH, 1, None, True)
        return c

    def act(self, c: Ctx):  # noqa: ANN201
        return c.world.nodes["A"].run(asyncio.ensure_future, c.ov["A"].create_rendezvous_point(INFO_HASH))

    def withdraw(self, c: Ctx, which: str) -> None:
        a = c.ov["A"]
        if which == "leave-swarm":
            c.world.nodes["A"].run(a.leave_swarm, INFO_HASH)
        else:
            for cid in list(a.circuits):
                c.world.nodes["A"].run(a.remove_circuit, cid, "withdrawn", remove_now=True)


class HsIntro(Scenario):
    """IPRequestCache: create_introduction_point() of a seeder."""

    name = "hs-intro"
    withdrawals = ("leave-swarm", "remove-circuits")

    def setup(self, seed: int) -> Ctx:
        w = _hs_world(seed)
        c = Ctx(w, w.ov)
        w.nodes["A"].run(w.ov["A"].join_swarm, INFO_HASH, 1, None, True)
        return c

    def act(self, c: Ctx):  # noqa: ANN201
        return c.world.nodes["A"].run(asyncio.ensure_future, c.ov["A"].create_introduction_point(INFO_HASH))

    withdraw = HsRendezvous.withdraw


class HsPeers(Scenario):
    """PeersRequestCache: a downloader asks a known introduction point (here: its exit) for more peers."""

    name = "hs-peers"
    withdrawals = ("leave-swarm", "remove-circuits")

    def setup(self, seed: int) -> Ctx:
        from ipv8.messaging.anonymization.tunnel import IntroductionPoint
        from ipv8.peer import Peer
        w = _hs_world(seed)
        c = Ctx(w, w.ov)
        a, x = w.ov["A"], w.ov["X"]
        c.extra["circuit"] = w.build_circuit("A", ["X"])
        w.nodes["A"].run(a.join_swarm, INFO_HASH, 1, None, False)
        # the library compares key *objects* to decide "is the target my last hop" - hand it the hop's own object
        ip = IntroductionPoint(Peer(c.extra["circuit"].hops[-1].public_key, x.my_peer.address), fixtures.public_bin(10))
        a.swarms[INFO_HASH].add_intro_point(ip)
        x.dht_provider = _DhtStub([IntroductionPoint(Peer(w.ov["R"].my_peer.public_key, w.ov["R"].my_peer.address),
                                                     fixtures.public_bin(11))])
        c.extra["ip"] = ip
        return c

    def act(self, c: Ctx):  # noqa: ANN201
        swarm = c.ov["A"].swarms[INFO_HASH]
        return c.world.nodes["A"].run(asyncio.ensure_future, swarm.lookup(target=c.extra["ip"]))

    withdraw = HsRendezvous.withdraw


def _dht_world(seed: int, n: int = 3):  # noqa: ANN202
    from ipv8.dht.discovery import DHTDiscoveryCommunity
    from ipv8.community import CommunitySettings
    w = simnet.World(("c10-shipped-dht", seed))
    ovs = {}
    for i in range(n):
        node = w.add_node("ABCDE"[i], (seed + i) % 12)
        ovs[node.name] = node.add_overlay(DHTDiscoveryCommunity, CommunitySettings())
    simnet.introduce(w, list(ovs.values()))
    w.run_for(1.0)
    return w, ovs


def _dht_node(ov, target_ov):  # noqa: ANN001, ANN202
    from ipv8.dht.routing import Node
    return Node(target_ov.my_peer.key, target_ov.my_peer.address)


class DhtPing(Scenario):
    name = "dht-ping"
    horizon = 12.0  # DHT requests time out after 2 s / 5 s

    def setup(self, seed: int) -> Ctx:
        w, ovs = _dht_world(seed, 2)
        return Ctx(w, ovs)

    def act(self, c: Ctx):  # noqa: ANN201
        return c.world.nodes["A"].run(c.ov["A"].ping, _dht_node(c.ov["A"], c.ov["B"]))


class DhtFind(Scenario):
    name = "dht-find"
    horizon = 12.0

    def setup(self, seed: int) -> Ctx:
        w, ovs = _dht_world(seed, 2)
        return Ctx(w, ovs)

    def act(self, c: Ctx):  # noqa: ANN201
        return c.world.nodes["A"].run(c.ov["A"]._send_find_request, _dht_node(c.ov["A"], c.ov["B"]), b"\x05" * 20, False)


class DhtStore(Scenario):
    """store_on_nodes on two nodes (tokens learnt from a preceding find): two Requests in one call."""

    name = "dht-store"
    horizon = 12.0

    def setup(self, seed: int) -> Ctx:
        w, ovs = _dht_world(seed, 3)
        c = Ctx(w, ovs)
        a = ovs["A"]
        nodes = [_dht_node(a, ovs["B"]), _dht_node(a, ovs["C"])]
        for n in nodes:
            w.nodes["A"].run(a._send_find_request, n, b"\x05" * 20, False)
        w.run_for(0.5)
        c.extra["nodes"] = nodes
        return c

    def act(self, c: Ctx):  # noqa: ANN201
        a = c.ov["A"]
        return c.world.nodes["A"].run(a.store_on_nodes, b"\x05" * 20, [b"value"], c.extra["nodes"])


class DhtStorePeer(DhtStore):
    name = "dht-store-peer"

    def act(self, c: Ctx):  # noqa: ANN201
        a = c.ov["A"]
        return c.world.nodes["A"].run(asyncio.ensure_future, a.send_store_peer_request(a.my_peer.mid, c.extra["nodes"]))


class DhtConnectPeer(Scenario):
    """send_connect_peer_request to two nodes: two connect-peer Requests in one call."""

    name = "dht-connect-peer"
    horizon = 12.0

    def setup(self, seed: int) -> Ctx:
        w, ovs = _dht_world(seed, 3)
        c = Ctx(w, ovs)
        c.extra["nodes"] = [_dht_node(ovs["A"], ovs["B"]), _dht_node(ovs["A"], ovs["C"])]
        return c

    def act(self, c: Ctx):  # noqa: ANN201
        a = c.ov["A"]
        return c.world.nodes["A"].run(asyncio.ensure_future, a.send_connect_peer_request(b"\x07" * 20, c.extra["nodes"]))


class DiscoveryPing(Scenario):
    """peerdiscovery PingRequestCache: DiscoveryCommunity.send_ping."""

    name = "discovery-ping"
    withdrawals = ("remove-peer",)
    horizon = 12.0

    def setup(self, seed: int) -> Ctx:
        from ipv8.community import CommunitySettings
        from ipv8.peerdiscovery.community import DiscoveryCommunity
        w = simnet.World(("c10-shipped-disc", seed))
        ovs = {}
        for i in range(2):
            node = w.add_node("AB"[i], (seed + i) % 12)
            ovs[node.name] = node.add_overlay(DiscoveryCommunity, CommunitySettings())
        simnet.introduce(w, list(ovs.values()))
        return Ctx(w, ovs)

    def act(self, c: Ctx):  # noqa: ANN201
        a = c.ov["A"]
        peer = a.network.get_verified_by_public_key_bin(c.ov["B"].my_peer.public_key.key_to_bin())
        c.extra["peer"] = peer
        c.world.nodes["A"].run(a.send_ping, peer)

    def withdraw(self, c: Ctx, which: str) -> None:
        c.ov["A"].network.remove_peer(c.extra["peer"])


SCENARIOS = {s.name: s for s in (TunnelBuild(), TunnelPing(), TunnelTest(), HsRendezvous(), HsIntro(), HsPeers(),
                                 DhtPing(), DhtFind(), DhtStore(), DhtStorePeer(), DhtConnectPeer(), DiscoveryPing())}


# ------------------------------------------------------------------------------------------------------------------
# one execution
# ------------------------------------------------------------------------------------------------------------------

def execute(name: str, seed: int, plan: dict) -> dict:
    """
    plan: {"faults": [[kind, k], ...], "withdraw": name | None, "equal": [j, k] | None, "lose_all": bool}
    Returns {"violations": [(key, what)], "exchange": n datagrams of the undisturbed first flush, "draws": n,
             "outcomes": [(class, how)], "call": state of the awaited API call}
    """
    scn = SCENARIOS[name]
    faults = {int(k): kind for kind, k in plan.get("faults", [])}
    equal = plan.get("equal")
    lose_all = bool(plan.get("lose_all"))
    c = scn.setup(seed)
    w = c.world
    state = {"n": 0, "held": [], "phase": 0, "draws": 0, "vals": [], "exchange": 0}
    real_random = rq_mod.random

    def fake_random() -> float:
        i = state["draws"]
        state["draws"] += 1
        v = real_random()
        if equal is not None and i == equal[1] and equal[0] < len(state["vals"]):
            v = state["vals"][equal[0]]
        state["vals"].append(v)
        return v

    def hook(dg):  # noqa: ANN001, ANN202
        if state["phase"] == 2:
            return dg
        k = state["n"]
        state["n"] += 1
        if state["phase"] == 0:
            state["exchange"] += 1
        if lose_all:
            return None
        kind = faults.get(k)
        if kind == "drop":
            return None
        if kind == "late":
            state["held"].append(dg)
            return None
        if kind == "dup":
            w.wire_log.append(dg)
            w.inflight.append(simnet.Datagram(dg.seq, dg.src, dg.dst, dg.data, dg.sender, "duplicate"))
        return dg

    rq_mod.random = fake_random
    violations: list = []
    call_state = None
    try:
        w.send_hook = hook
        call = scn.act(c)
        if plan.get("withdraw"):
            scn.withdraw(c, plan["withdraw"])
        w.flush()
        state["phase"] = 1
        state["draws0"] = state["draws"]
        w.run_for(scn.horizon)
        state["phase"] = 2
        for dg in state["held"]:
            w.inflight.append(dg)
        w.run_for(scn.horizon)
        violations = c.mon.judge()
        if call is not None and isinstance(call, asyncio.Future):
            if not call.done():
                call_state = "pending"
                violations.append((f"call-pending:{name}", f"the awaited library call of scenario {name} is still "
                                   f"pending {2 * scn.horizon:g} s later"))
            elif call.cancelled():
                call_state = "cancelled"
            elif call.exception() is not None:
                call_state = "raised:" + type(call.exception()).__name__
            else:
                call_state = "returned"
        outcomes = c.mon.outcomes()
    finally:
        rq_mod.random = real_random
        w.send_hook = None
        w.close()
    seen, out = set(), []
    for k, what in violations:
        if k not in seen:
            seen.add(k)
            out.append((k, what))
    return {"violations": out, "exchange": state["exchange"], "draws": state.get("draws0", 0), "outcomes": outcomes,
            "call": call_state}


def plans_for(name: str, exchange: int, draws: int, thorough: bool) -> list[dict]:
    scn = SCENARIOS[name]
    plans: list[dict] = [{}]
    kinds = ("drop", "dup", "late")
    plans += [{"faults": [[kind, k]]} for k in range(exchange) for kind in kinds]
    for wd in scn.withdrawals:
        plans.append({"withdraw": wd})
        plans += [{"withdraw": wd, "faults": [["drop", k]]} for k in range(exchange)]
    d = min(draws, MAX_EQUAL_DRAWS)
    for k in range(d):
        for j in range(k):
            plans.append({"equal": [j, k]})
            plans.append({"equal": [j, k], "lose_all": True})
    plans.append({"lose_all": True})
    if thorough:
        plans += [{"faults": [[k1, a], [k2, b]]} for a in range(exchange) for b in range(a + 1, exchange)
                  for k1 in kinds for k2 in kinds]
    return plans
