"""
C04 reference: the wire format of tunnel cells and of the messages they carry, transcribed with ``struct`` from the
documented layout (not from the implementation's packers), plus the payload generator used by the harness.

    datagram   = prefix(22) 0x00 circuit_id(u32) plaintext(u8 bool) relay_early(u8 bool) body
    body       = message                       when plaintext (create/created only)
               = L_k( ... L_h(message) ... )   on the link leaving node k-1 of a h-hop circuit (k = 1 is the first link)
    message    = msg_id(u8) fields            (the circuit id is *not* repeated inside the message)
    data       = 0x01 dest(address) origin(address) raw
    ping/pong  = 0x06 / 0x07 identifier(u16)
    test-req   = 0x13 identifier(u16) response_size(u16) raw
    test-resp  = 0x14 identifier(u16) raw
    address    = 0x01 ipv4(4) port(u16) | 0x03 ipv6(16) port(u16) | 0x02 len(u16) hostname port(u16)
"""
from __future__ import annotations

import socket
import struct
from functools import lru_cache

HEADER_LEN = 29
POS_MSG = 22
POS_CID = 23
POS_PLAINTEXT = 27
POS_RELAY_EARLY = 28

MARKER = b"C04>\xa5\x5a\xc3\x3c\x96\x69\x0f\xf0<MRK"
assert len(MARKER) == 16

ZERO = ("v4", "0.0.0.0", 0)


def enc_address(a: tuple) -> bytes:
    kind, host, port = a
    if kind == "v4":
        return b"\x01" + socket.inet_pton(socket.AF_INET, host) + struct.pack(">H", port)
    if kind == "v6":
        return b"\x03" + socket.inet_pton(socket.AF_INET6, host) + struct.pack(">H", port)
    if kind == "dom":
        h = host.encode()
        return b"\x02" + struct.pack(">H", len(h)) + h + struct.pack(">H", port)
    raise ValueError(a)


def msg_data(dest: tuple, origin: tuple, data: bytes) -> bytes:
    return b"\x01" + enc_address(dest) + enc_address(origin) + data


def msg_ping(ident: int) -> bytes:
    return b"\x06" + struct.pack(">H", ident)


def msg_pong(ident: int) -> bytes:
    return b"\x07" + struct.pack(">H", ident)


def msg_test_request(ident: int, response_size: int, data: bytes) -> bytes:
    return b"\x13" + struct.pack(">HH", ident, response_size) + data


def msg_test_response(ident: int, data: bytes) -> bytes:
    return b"\x14" + struct.pack(">H", ident) + data


def parse_cell(prefix: bytes, datagram: bytes):  # noqa: ANN201
    """(circuit_id, plaintext_flag_byte, relay_early_flag_byte, body) or None if this is not a cell of this overlay."""
    if len(datagram) < HEADER_LEN or datagram[:22] != prefix or datagram[POS_MSG] != 0:
        return None
    cid, = struct.unpack_from(">I", datagram, POS_CID)
    return cid, datagram[POS_PLAINTEXT], datagram[POS_RELAY_EARLY], datagram[HEADER_LEN:]


def make_cell(prefix: bytes, circuit_id: int, body: bytes, plaintext: bool = False, relay_early: bool = False) -> bytes:
    return prefix + b"\x00" + struct.pack(">I", circuit_id) + bytes([int(plaintext), int(relay_early)]) + body


@lru_cache(maxsize=4096)
def payload(size: int, salt: int) -> bytes:
    """
    `size` bytes shaped like a bencoded dictionary (b"d...e": passes the exit's BitTorrent test for size >= 2),
    containing the 16-byte MARKER when it fits and otherwise a filler that runs through all byte values.
    """
    if size == 0:
        return b""
    if size == 1:
        return b"d"
    inner = size - 2
    fill = bytes(((salt * 7 + 13 + 31 * i) ^ (i >> 8)) & 0xFF for i in range(inner))
    if inner >= 16:
        fill = MARKER + fill[16:]
    out = b"d" + fill + b"e"
    assert len(out) == size
    return out


def common_window(a: bytes, b: bytes, n: int = 16) -> int | None:
    """Offset in `a` of an n-byte window that also occurs somewhere in `b`, or None."""
    if len(a) < n or len(b) < n:
        return None
    windows = {b[i:i + n] for i in range(len(b) - n + 1)}
    for i in range(len(a) - n + 1):
        if a[i:i + n] in windows:
            return i
    return None


SHAPES = ("opaque", "v1", "v2", "pfx1", "pfx2", "pfx4", "pfx6", "pfx8")
SHAPE_SIZE = {"opaque": 40, "v1": 32, "v2": 32, "pfx1": 53, "pfx2": 53, "pfx4": 53, "pfx6": 53, "pfx8": 53}


def shaped_payload(shape: str, salt: int, prefix: bytes) -> bytes:
    """
    Payloads that do not look like BitTorrent:
      opaque  40 bytes that are neither BitTorrent- nor IPv8-shaped
      v1 / v2 00 01 / 00 02 + 30 bytes (the first two bytes of every IPv8 packet)
      pfxN    the tunnel overlay's own 22-byte prefix + message id N (1 data, 2 create, 4 extend, 6 ping, 8 destroy) + 30
    Each contains the MARKER.
    """
    tail = MARKER + bytes((salt * 5 + 17 * i + 3) & 0xFF for i in range(14))
    if shape == "opaque":
        out = b"\xf3\x9c\xa7\xee\x81\xd2\xb6\xfa\xc3\x95" + tail
    elif shape == "v1":
        out = b"\x00\x01" + tail
    elif shape == "v2":
        out = b"\x00\x02" + tail
    elif shape.startswith("pfx"):
        out = prefix + bytes([int(shape[3:])]) + tail
    else:
        raise ValueError(shape)
    assert len(out) == SHAPE_SIZE[shape], (shape, len(out))
    return out


CELL_MESSAGE_IDS = (1, 2, 3, 4, 5, 6, 7, 19, 20)


def _varlen_h(b: bytes) -> bytes:
    return struct.pack(">H", len(b)) + b


def wellformed_message(mid: int, data_msg: bytes, public_key_bin: bytes) -> bytes:
    """
    A syntactically valid tunnel message of every kind a TunnelCommunity dispatches from a cell:
    1 data, 2 create, 3 created, 4 extend, 5 extended, 6 ping, 7 pong, 19 test-request, 20 test-response.
    """
    ident = struct.pack(">H", 0x4C04)
    dh = bytes(range(1, 33))
    if mid == 1:
        return data_msg
    if mid == 2:
        return b"\x02" + ident + _varlen_h(public_key_bin) + _varlen_h(dh)
    if mid in (3, 5):
        return bytes([mid]) + ident + _varlen_h(dh) + bytes(32) + b"candidates"
    if mid == 4:
        return b"\x04" + ident + _varlen_h(public_key_bin) + _varlen_h(dh) + socket.inet_aton("9.9.9.9") + struct.pack(">H", 99)
    if mid in (6, 7):
        return bytes([mid]) + ident
    if mid == 19:
        return b"\x13" + ident + struct.pack(">H", 16) + b"test-request-data"
    if mid == 20:
        return b"\x14" + ident + b"test-response-data"
    raise ValueError(mid)


APP_PREFIX = b"\x00\x02" + b"C04-anonymized-ovrl!"      # prefix of an application overlay that asked for anonymity
assert len(APP_PREFIX) == 22


@lru_cache(maxsize=4096)
def anon_packet(size: int, salt: int) -> bytes:
    """An IPv8-shaped packet of the anonymized overlay: its prefix + `size` >= 1 bytes (MARKER included when it fits)."""
    fill = bytes(((salt * 11 + 5 + 29 * i) ^ (i >> 8)) & 0xFF for i in range(size))
    if size >= 17:
        fill = fill[:1] + MARKER + fill[17:]
    return APP_PREFIX + fill


def anon_histories(k: int) -> list:
    """
    Every event sequence of an application that hands <= k packets (to destination A or B; the first one to A) to
    TunnelEndpoint.send while the circuit the endpoint uses is absent / being built / ready / being removed / replaced:
        sA | sB    send the next packet;  prebuild  somebody else (do_circuits) starts the circuit;
        ready      the handshake completes;  remove  the ready circuit is removed (destroy sent);  expire  5 s later
    Sequences end with a send or with `ready`; at most one removal.
    """
    out: list = []

    def dfs(state: str, sends: int, removes: int, seq: list) -> None:
        if seq and (seq[-1][0] == "s" or seq[-1] == "ready"):
            out.append("-".join(seq))
        if sends < k:
            nxt = {"NONE": "BUILDING", "BUILDING": "BUILDING", "READY": "READY", "CLOSING": "CLOSING"}[state]
            for d in ("A", "B") if sends else ("A",):
                dfs(nxt, sends + 1, removes, [*seq, "s" + d])
            if state == "NONE":
                dfs("BUILDING", sends, removes, [*seq, "prebuild"])
            if state == "READY" and removes < 1:
                dfs("CLOSING", sends, removes + 1, [*seq, "remove"])
            if state == "CLOSING":
                dfs("NONE", sends, removes, [*seq, "expire"])
        if state == "BUILDING":
            dfs("READY", sends, removes, [*seq, "ready"])

    dfs("NONE", 0, 0, [])
    return out
