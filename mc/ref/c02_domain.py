"""
C02 input domain: every concrete Serializable class of the library, its fields, a boundary alphabet for every
field, and bounded-exhaustive enumeration of instances.  Reusable by C03 / C20:

    from mc.ref import c02_domain as dom
    for spec in dom.enumerate_classes():               # library classes (synthetic ones: include_synthetic=True)
        for descs in spec.instances(d=2, cap=3000, seed=0):
            inst = spec.build(descs)                    # a real instance of spec.cls
            wire_values = spec.wire(descs)              # for mc.ref.c02_wire.encode_payload(spec.ref_format_list, ..)
            data = dom.serializer().pack_serializable(inst)

Field values are handled as JSON-able *descriptors* (so that replay files can hold them):

    int / bool / float / str      the value itself
    {"b": hex}                    bytes
    {"bp": hex, "n": N}           bytes: the pattern repeated and cut to N bytes
    {"a": [host, port]}           an address tuple
    {"t": [..]} / {"l": [..]}     tuple / list of descriptors
    {"p": spec key, "v": [..]}    an instance of another payload class (nested)
    {"node": [key index, [host, port]]}   a dht Node with fixture key ``key index`` (curve25519; index >= 100: 'medium')

``mat(desc)`` builds the python value handed to the constructor, ``wire_of(desc)`` the value the reference codec
encodes, ``same(desc, actual)`` compares a decoded attribute with what was put in.
"""
from __future__ import annotations

import importlib
import itertools
import pkgutil
from dataclasses import dataclass
from functools import lru_cache
from typing import Any, Callable, Iterator

import ipv8
from ipv8.messaging.lazy_payload import VariablePayload, vp_compile
from ipv8.messaging.payload_dataclass import DataClassPayload, type_from_format
from ipv8.messaging.serialization import Serializable, Serializer

from .. import fixtures
from . import c02_wire as wire

# ---------------------------------------------------------------------------------------------
# descriptors
# ---------------------------------------------------------------------------------------------

PATTERN = bytes(range(1, 252))  # 251 bytes (prime length): no alignment with any length unit


def B(data: bytes) -> dict:  # noqa: N802
    return {"b": data.hex()}


def BP(n: int, pattern: bytes = PATTERN) -> dict:  # noqa: N802
    return {"bp": pattern.hex(), "n": n} if n > 32 else B((pattern * (n // len(pattern) + 1))[:n])


def A(host: str, port: int) -> dict:  # noqa: N802
    return {"a": [host, port]}


@lru_cache(maxsize=256)
def _rep(pattern_hex: str, n: int) -> bytes:
    pattern = bytes.fromhex(pattern_hex)
    return (pattern * (n // len(pattern) + 1))[:n]


def key_bin(index: int) -> bytes:
    return fixtures.public_bin(index - 100, "medium") if index >= 100 else fixtures.public_bin(index)


def mat(desc: Any) -> Any:  # noqa: ANN401, PLR0911
    """Descriptor -> python value to hand to a constructor / packer."""
    if not isinstance(desc, dict):
        return desc
    if "b" in desc:
        return bytes.fromhex(desc["b"])
    if "bp" in desc:
        return _rep(desc["bp"], desc["n"])
    if "a" in desc:
        return (desc["a"][0], desc["a"][1])
    if "t" in desc:
        return tuple(mat(x) for x in desc["t"])
    if "l" in desc:
        return [mat(x) for x in desc["l"]]
    if "p" in desc:
        return spec_by_key(desc["p"]).build(desc["v"])
    if "node" in desc:
        from ipv8.dht.routing import Node
        return Node(key_bin(desc["node"][0]), address=tuple(desc["node"][1]))
    raise ValueError(desc)


def wire_of(desc: Any) -> Any:  # noqa: ANN401
    """Descriptor -> wire value understood by mc.ref.c02_wire."""
    if isinstance(desc, dict):
        if "t" in desc:
            return tuple(wire_of(x) for x in desc["t"])
        if "l" in desc:
            return [wire_of(x) for x in desc["l"]]
        if "p" in desc:
            return spec_by_key(desc["p"]).wire(desc["v"])
        if "node" in desc:
            return (key_bin(desc["node"][0]), tuple(desc["node"][1]))
    return mat(desc)


def same(desc: Any, actual: Any) -> bool:  # noqa: ANN401, C901, PLR0911, PLR0912
    """
    Is the decoded attribute ``actual`` the value described by ``desc``?

    Python equality, made explicit: bool/int compare as numbers (``bits`` give 0/1 for False/True), an address
    equals any tuple with the same host and port (UDPv4Address == plain tuple), list and tuple are both accepted
    for a sequence, bytes never equal str, a Node is its (public key, address), a nested payload is its fields.
    """
    if isinstance(desc, int):  # includes bool
        return isinstance(actual, int) and actual == desc
    if isinstance(desc, float):
        return isinstance(actual, float) and actual == desc
    if isinstance(desc, str):
        return isinstance(actual, str) and actual == desc
    if desc is None:
        return actual is None
    if "b" in desc or "bp" in desc:
        return isinstance(actual, (bytes, bytearray, memoryview)) and bytes(actual) == mat(desc)
    if "a" in desc:
        return isinstance(actual, tuple) and tuple(actual) == (desc["a"][0], desc["a"][1])
    if "t" in desc or "l" in desc:
        items = desc.get("t", desc.get("l"))
        return (isinstance(actual, (list, tuple)) and len(actual) == len(items)
                and all(same(d, a) for d, a in zip(items, actual)))
    if "p" in desc:
        return isinstance(actual, Serializable) and not spec_by_key(desc["p"]).compare(desc["v"], actual)
    if "node" in desc:
        try:
            return (actual.public_key.key_to_bin() == key_bin(desc["node"][0])
                    and tuple(actual.address) == tuple(desc["node"][1]))
        except AttributeError:
            return False
    raise ValueError(desc)


def desc_size(desc: Any) -> int:  # noqa: ANN401
    """Rough size in bytes of the value a descriptor stands for."""
    if isinstance(desc, str):
        return len(desc.encode())
    if not isinstance(desc, dict):
        return 8
    if "b" in desc:
        return len(desc["b"]) // 2
    if "bp" in desc:
        return desc["n"]
    if "a" in desc:
        return 19 + len(desc["a"][0])
    if "node" in desc:
        return 120
    return 2 + sum(desc_size(x) for x in desc.get("t", desc.get("l", desc.get("v", []))))


def show(desc: Any) -> str:  # noqa: ANN401
    """Short human-readable form of a descriptor."""
    if isinstance(desc, dict):
        if "b" in desc:
            return f"bytes.fromhex('{desc['b']}')"
        if "bp" in desc:
            return f"<{desc['n']} bytes>"
        if "a" in desc:
            return repr(tuple(desc["a"]))
        if "t" in desc:
            return "(" + ", ".join(show(x) for x in desc["t"]) + ")"
        if "l" in desc:
            items = desc["l"]
            return "[" + ", ".join(show(x) for x in items[:3]) + (f", ... {len(items)} items" if len(items) > 3 else "") + "]"
        if "p" in desc:
            return desc["p"].rsplit(":", 1)[-1] + "(" + ", ".join(show(x) for x in desc["v"]) + ")"
        if "node" in desc:
            return f"Node(key#{desc['node'][0]}, {tuple(desc['node'][1])!r})"
    return repr(desc)


# ---------------------------------------------------------------------------------------------
# boundary alphabets per format.  Index 0: a typical, byte-order revealing value; index 1: the minimum / empty
# value; index 2: the maximum; then further boundary values.
# ---------------------------------------------------------------------------------------------

_INT = {
    "B": [0xA5, 0, 0xFF, 1],
    "H": [0x0102, 0, 0xFFFF, 1],
    "I": [0x01020304, 0, 0xFFFFFFFF, 1],
    "L": [0x01020304, 0, 0xFFFFFFFF, 1],
    "l": [0x01020304, -2 ** 31, 2 ** 31 - 1, 0, 1, -1],
    "q": [0x0102030405060708, -2 ** 63, 2 ** 63 - 1, 0, 1, -1],
    "Q": [0x0102030405060708, 0, 2 ** 64 - 1, 1],
    "?": [True, False],
    "f": [1.5, 0.0, -3.4028234663852886e+38],
    "d": [-1.5, 0.0, 1.7976931348623157e308, 5e-324],
}

IPV4 = [A("1.2.3.4", 0x0506), A("0.0.0.0", 0), A("255.255.255.255", 65535), A("127.0.0.1", 1)]
IPV6 = [A("2001:db8::1", 0x0506), A("::", 0), A("ffff:ffff:ffff:ffff:ffff:ffff:ffff:ffff", 65535)]
DOMAIN = [A("tribler.org", 0x0506), A("a", 0), A("bücher.example", 65535), A("x" * 255, 1)]
# byte twins: a host name of exactly 4 / 16 bytes and the IPv4 / IPv6 address made of the very same bytes, same port -
# on the wire they differ only in the address-type byte
TWIN4 = [A("116.46.99.111", 443), A("t.co", 443)]
TWIN16 = [A("6162:6364:6566:6768:2e65:7861:6d70:6c65", 443), A("abcdefgh.example", 443)]
BITS = [{"t": [(n >> s) & 1 for s in range(7, -1, -1)]} for n in [0xA5, 0, 0xFF, *(set(range(256)) - {0xA5, 0, 0xFF})]]
BITS = [BITS[0], BITS[1], BITS[2], *sorted(BITS[3:], key=lambda d: d["t"])]
NODES = [{"node": [0, ["1.2.3.4", 0x0506]]}, {"node": [1, ["2001:db8::1", 65535]]}, {"node": [100, ["0.0.0.0", 0]]}]


def _sized(letter_item: str) -> list:
    n = int(letter_item[:-1])
    return [BP(n), B(b"\x00" * n), B(b"\xff" * n)]


def _letter_alphabet(item: str) -> list:
    if item == "c":
        return [B(b"Y"), B(b"\x00"), B(b"\xff")]
    if item.endswith("s"):
        return _sized(item)
    return list(_INT[item])


def alphabet_for(fmt: Any) -> list:  # noqa: ANN401, C901, PLR0911, PLR0912
    """The boundary alphabet (list of descriptors) of one format-list entry."""
    if isinstance(fmt, list):
        spec = spec_for_class(fmt[0])
        reps = spec.representatives()
        small = min(reps, key=lambda v: len(spec.ref_encode(v)))
        out = [{"l": [_p(spec, reps[0]), _p(spec, reps[-1])]}, {"l": []}, {"l": [_p(spec, reps[0])]}]
        if len(spec.ref_encode(small)) <= 200 and spec.origin != "dataclass":  # (dataclass instances are slow to build)
            out.append({"l": [_p(spec, small)] * 255})
        return out
    if not isinstance(fmt, str):
        spec = spec_for_class(fmt)
        return [_p(spec, v) for v in spec.representatives()]
    if fmt in wire.STRUCT_FORMATS:
        items = wire._letters(wire.STRUCT_FORMATS[fmt])  # noqa: SLF001
        alphabets = [_letter_alphabet(i) for i in items]
        if len(items) == 1:
            return alphabets[0]
        n = max(len(a) for a in alphabets)
        return [{"t": [a[k % len(a)] for a in alphabets]} for k in range(n)]
    if fmt == "bits":
        return BITS
    if fmt == "ipv4":
        return [*IPV4, TWIN4[0]]
    if fmt == "ip_address":
        return [IPV4[0], IPV4[1], IPV4[2], *IPV6, TWIN4[0], TWIN16[0]]
    if fmt == "address":
        return [IPV4[0], IPV4[1], IPV4[2], *IPV6, *DOMAIN, *TWIN4, *TWIN16]
    if fmt == "raw":
        return [BP(23), B(b""), BP(1400), B(b"\x00")]
    if fmt in ("varlenH", "doublevarlenH"):
        return [BP(5), B(b""), BP(65535), B(b"\x00"), BP(255), BP(256)]
    if fmt == "varlenI":
        return [BP(5), B(b""), BP(65536), B(b"\x00"), BP(255)]
    if fmt == "varlenBx2":
        return [BP(6), B(b""), BP(510), BP(2)]
    if fmt == "varlenHx20":
        return [BP(40), B(b""), BP(255 * 20), BP(20), BP(256 * 20)]
    if fmt == "varlenHutf8":
        return ["hé€\U0001F600", "", "é" * 32767 + "x", "a", "x" * 256]
    if fmt == "varlenIutf8":
        return ["hé€\U0001F600", "", "x" * 65536, "a"]
    if fmt == "varlenH-list":
        return [{"l": [B(b"a"), BP(256)]}, {"l": []}, {"l": [B(b"x")] * 255}, {"l": [B(b"")]}, {"l": [BP(65535)]}]
    if fmt == "arrayH-?":
        return [{"l": [False, True, True]}, {"l": []}, {"l": [True, False] * 32767 + [True]}, {"l": [True]}]
    if fmt == "arrayH-q":
        return [{"l": [-1, 0x0102030405060708]}, {"l": []}, {"l": [2 ** 63 - 1, -2 ** 63, 0] * 85 + [7]}, {"l": [1]}]
    if fmt == "arrayH-d":
        return [{"l": [-1.5, 1.7976931348623157e308]}, {"l": []}, {"l": [0.5] * 256}, {"l": [5e-324]}]
    if fmt == "flags":
        return [{"l": [1, 4]}, {"l": []}, {"l": [1 << i for i in range(16)]}, {"l": [1]}, {"l": [2]}, {"l": [32768]},
                {"l": [1, 2, 4, 8]}, {"l": [256]}]
    if fmt == "node-list":
        return [{"l": NODES[:2]}, {"l": []}, {"l": [NODES[i % 3] for i in range(255)]}, {"l": [NODES[2]]}]
    msg = f"no alphabet for format {fmt!r}"
    raise KeyError(msg)


def _p(spec: "ClassSpec", values: list) -> dict:
    return {"p": spec.key, "v": values}


# alphabets of constructor arguments of hand-written payloads that are not plain formats
_KIND = {
    "bool": [True, False],
    "conntype": ["public", "unknown", "symmetric-NAT"],
    "pref20": [{"l": [BP(20), B(b"\xff" * 20)]}, {"l": []}, {"l": [BP(20)]}, {"l": [B(b"\x00" * 20)] * 3}],
    "tb": [{"l": [{"t": [BP(20), 0x01020304]}, {"t": [B(b"\xff" * 20), 0xFFFFFFFF]}]}, {"l": []},
           {"l": [{"t": [B(b"\x00" * 20), 0]}]}],
}

CONNECTION_TYPE_BITS = {"unknown": (0, 0), "public": (1, 0), "symmetric-NAT": (1, 1)}


# ---------------------------------------------------------------------------------------------
# class specifications
# ---------------------------------------------------------------------------------------------

@dataclass
class Field:
    names: list          # attribute / constructor names (8 for a ``bits`` group, else 1)
    fmt: Any             # format-list entry, or a kind name of _KIND for hand-written constructors
    alphabet: list       # descriptors


class ClassSpec:
    """One Serializable class: its fields with alphabets, how to build it, what the wire must look like."""

    def __init__(self, key: str, cls: type, name: str, origin: str) -> None:
        self.key = key
        self.cls = cls
        self.name = name          # used in violation keys
        self.origin = origin      # "variable" | "compiled" | "dataclass" | "hand-written"
        self.library = not key.startswith("syn:")
        self.fields: list[Field] = []
        self.ref_format_list: list = []
        self._wire: Callable[..., list] | None = None   # hand-written: wire values of the args -> wire values
        self._reps: list | None = None
        self.single_format: str | None = None

    # -- construction ----------------------------------------------------------------------
    def build(self, descs: list) -> Serializable:
        args: list = []
        for field, desc in zip(self.fields, descs):
            value = mat(desc)
            if len(field.names) > 1:
                args.extend(value)
            else:
                args.append(value)
        return self.cls(*args)

    def wire(self, descs: list) -> list:
        values = [wire_of(d) for d in descs]
        if self._wire is not None:
            return self._wire(*values)
        return values

    def ref_encode(self, descs: list) -> bytes:
        return wire.encode_payload(self.ref_format_list, self.wire(descs))

    def expected(self, descs: list) -> list[tuple[str, Any, Any]]:
        """(attribute name, descriptor, format) for every attribute that must survive the round trip."""
        out = []
        for field, desc in zip(self.fields, descs):
            fmt = field.fmt if self._wire is None and isinstance(field.fmt, str) else None
            if len(field.names) > 1:
                out.extend((n, d, fmt) for n, d in zip(field.names, desc["t"]))
            else:
                out.append((field.names[0], desc, fmt))
        return out

    def compare(self, descs: list, obj: Any) -> list[tuple[str, Any, str, str]]:  # noqa: ANN401
        """Mismatching attributes of a decoded object: (name, format, got, want)."""
        bad = []
        for name, desc, fmt in self.expected(descs):
            try:
                got = getattr(obj, name)
            except AttributeError:
                bad.append((name, fmt, "<attribute missing>", show(desc)))
                continue
            if not same(desc, got):
                bad.append((name, fmt, _short(got), show(desc)))
        return bad

    # -- enumeration -----------------------------------------------------------------------
    def sizes(self) -> list[int]:
        return [len(f.alphabet) for f in self.fields]

    def product_size(self) -> int:
        n = 1
        for s in self.sizes():
            n *= s
        return n

    def base(self, which: int, seed: int = 0) -> list[int]:
        return [(seed + which) % s for s in self.sizes()]

    def descs(self, indices: list[int] | tuple) -> list:
        return [f.alphabet[i] for f, i in zip(self.fields, indices)]

    def representatives(self) -> list:
        """A few small instances (descriptor lists) used when this class is nested in another one."""
        if self._reps is None:
            reps = []
            for k in range(3):
                descs = []
                for f in self.fields:
                    cand = f.alphabet[k % len(f.alphabet)]
                    descs.append(cand if desc_size(cand) <= 512 else f.alphabet[0])
                if descs not in reps:
                    reps.append(descs)
            self._reps = reps
        return self._reps

    def work_items(self, d: int, cap: int, seed: int = 0, chunk: int = 400) -> list[tuple]:
        """
        Partition of the bounded instance space into JSON-able work items:
        ("full", lo, hi) ranks of the full product, or ("dev", base number, field subset, lo, hi).
        """
        total = self.product_size()
        if total <= cap:
            return [("full", lo, min(lo + chunk, total)) for lo in range(0, total, chunk)]
        items = []
        k = len(self.fields)
        sizes = self.sizes()
        for which in (0, 1):
            for r in range(min(d, k) + 1):
                for subset in itertools.combinations(range(k), r):
                    n = 1
                    for i in subset:
                        n *= sizes[i] - 1
                    items.extend(("dev", which, subset, lo, min(lo + chunk, n)) for lo in range(0, n, chunk))
        return items

    def expand(self, item: tuple, d: int, seed: int = 0) -> Iterator[tuple[int, ...]]:
        """The index tuples of one work item (instances reachable from both bases are yielded for base 0 only)."""
        sizes = self.sizes()
        if item[0] == "full":
            for rank in range(item[1], item[2]):
                yield _unrank(rank, sizes)
            return
        _, which, subset, lo, hi = item
        base0 = self.base(0, seed)
        base = self.base(which, seed)
        alts = [[v for v in range(sizes[i]) if v != base[i]] for i in subset]
        alt_sizes = [len(a) for a in alts]
        for rank in range(lo, hi):
            pick = _unrank(rank, alt_sizes)
            idx = list(base)
            for pos, i in enumerate(subset):
                idx[i] = alts[pos][pick[pos]]
            if which == 1 and sum(1 for a, b in zip(idx, base0) if a != b) <= d:
                continue
            yield tuple(idx)

    def instances(self, d: int = 2, cap: int = 3000, seed: int = 0) -> Iterator[list]:
        """All instances (descriptor lists) of the bounded space: the full product if it has at most ``cap``
        elements, otherwise everything within ``d`` field deviations of two base instances."""
        for item in self.work_items(d, cap, seed):
            for idx in self.expand(item, d, seed):
                yield self.descs(idx)

    def boundary_instances(self, d: int = 2, cap: int = 3000, seed: int = 0) -> Iterator[tuple[list, Serializable]]:
        for descs in self.instances(d, cap, seed):
            yield descs, self.build(descs)


def _unrank(rank: int, sizes: list[int]) -> tuple[int, ...]:
    out = []
    for s in reversed(sizes):
        out.append(rank % s)
        rank //= s
    return tuple(reversed(out))


def _short(x: Any) -> str:  # noqa: ANN401
    r = repr(x)
    return r if len(r) <= 120 else r[:117] + "..."


# ---------------------------------------------------------------------------------------------
# hand-written payloads: constructor domains and the wire layout each must produce.
# (argument name, alphabet kind) in constructor order; ``wire`` maps the arguments' wire values to the wire
# values of ``ref`` (the format list a peer of another implementation would have to use).
# ---------------------------------------------------------------------------------------------

def _ct(connection_type: str) -> tuple[int, int]:
    return CONNECTION_TYPE_BITS[connection_type]


_IPV4X3 = [("destination_address", "ipv4"), ("source_lan_address", "ipv4"), ("source_wan_address", "ipv4")]

HAND_WRITTEN: dict[str, dict] = {
    "ipv8.messaging.payload:IntroductionRequestPayload": {
        "args": [*_IPV4X3, ("advice", "bool"), ("connection_type", "conntype"), ("identifier", "H"),
                 ("extra_bytes", "raw"), ("supports_new_style", "bool")],
        "ref": ["ipv4", "ipv4", "ipv4", "bits", "H", "raw"],
        "wire": lambda dst, lan, wan, advice, ct, ident, extra, sns:
            [dst, lan, wan, (*_ct(ct), int(sns), 0, 0, 0, 0, int(advice)), ident, extra],
    },
    "ipv8.messaging.payload:IntroductionResponsePayload": {
        "args": [*_IPV4X3, ("lan_introduction_address", "ipv4"), ("wan_introduction_address", "ipv4"),
                 ("connection_type", "conntype"), ("identifier", "H"), ("extra_bytes", "raw"),
                 ("supports_new_style", "bool"), ("intro_supports_new_style", "bool"), ("peer_limit_reached", "bool")],
        "ref": ["ipv4", "ipv4", "ipv4", "ipv4", "ipv4", "bits", "H", "raw"],
        "wire": lambda dst, lan, wan, ilan, iwan, ct, ident, extra, sns, isns, plr:
            [dst, lan, wan, ilan, iwan, (*_ct(ct), 0, int(sns), int(isns), int(plr), 0, 0), ident, extra],
    },
    "ipv8.messaging.payload:PunctureRequestPayload": {
        "args": [("lan_walker_address", "ipv4"), ("wan_walker_address", "ipv4"), ("identifier", "H")],
        "ref": ["ipv4", "ipv4", "H"], "wire": lambda lan, wan, ident: [lan, wan, ident],
    },
    "ipv8.messaging.payload:PuncturePayload": {
        "args": [("source_lan_address", "ipv4"), ("source_wan_address", "ipv4"), ("identifier", "H")],
        "ref": ["ipv4", "ipv4", "H"], "wire": lambda lan, wan, ident: [lan, wan, ident],
    },
    "ipv8.messaging.payload_headers:BinMemberAuthenticationPayload": {
        "args": [("public_key_bin", "varlenH")], "ref": ["varlenH"], "wire": lambda key: [key],
    },
    "ipv8.messaging.payload_headers:GlobalTimeDistributionPayload": {
        "args": [("global_time", "Q")], "ref": ["Q"], "wire": lambda t: [t],
    },
    "ipv8.peerdiscovery.payload:SimilarityRequestPayload": {
        "args": [("identifier", "H"), ("lan_address", "ipv4"), ("wan_address", "ipv4"), ("connection_type", "conntype"),
                 ("preference_list", "pref20")],
        "ref": ["H", "ipv4", "ipv4", "bits", "raw"],
        "wire": lambda ident, lan, wan, ct, prefs: [ident, lan, wan, (*_ct(ct), 0, 0, 0, 0, 0, 0), b"".join(prefs)],
    },
    "ipv8.peerdiscovery.payload:SimilarityResponsePayload": {
        "args": [("identifier", "H"), ("preference_list", "pref20"), ("tb_overlap", "tb")],
        "ref": ["H", "varlenHx20", "raw"],
        "wire": lambda ident, prefs, tb: [ident, b"".join(prefs),
                                          b"".join(h + n.to_bytes(4, "big") for h, n in tb)],
    },
    "ipv8.peerdiscovery.payload:PingPayload": {
        "args": [("identifier", "H")], "ref": ["H"], "wire": lambda ident: [ident],
    },
    "ipv8.peerdiscovery.payload:PongPayload": {
        "args": [("identifier", "H")], "ref": ["H"], "wire": lambda ident: [ident],
    },
    "ipv8.peerdiscovery.payload:DiscoveryIntroductionRequestPayload": {
        "args": [("introduce_to", "20s"), *_IPV4X3, ("advice", "bool"), ("connection_type", "conntype"),
                 ("identifier", "H"), ("extra_bytes", "raw")],
        "ref": ["c20s", "ipv4", "ipv4", "ipv4", "bits", "H", "raw"],
        # the constructor does not take supports_new_style: the base class default (True) goes on the wire
        "wire": lambda to, dst, lan, wan, advice, ct, ident, extra:
            [(b"Y", to), dst, lan, wan, (*_ct(ct), 1, 0, 0, 0, 0, int(advice)), ident, extra],
    },
    "ipv8.attestation.wallet.payload:RequestAttestationPayload": {
        "args": [("metadata", "raw")], "ref": ["raw"], "wire": lambda m: [m],
    },
    "ipv8.attestation.wallet.payload:VerifyAttestationRequestPayload": {
        "args": [("attestation_hash", "20s")], "ref": ["20s"], "wire": lambda h: [h],
    },
    "ipv8.attestation.wallet.payload:AttestationChunkPayload": {
        "args": [("attestation_hash", "20s"), ("sequence_number", "H"), ("data", "raw")],
        "ref": ["20s", "H", "raw"], "wire": lambda h, n, data: [h, n, data],
    },
    "ipv8.attestation.wallet.payload:ChallengePayload": {
        "args": [("attestation_hash", "20s"), ("challenge", "raw")],
        "ref": ["20s", "raw"], "wire": lambda h, c: [h, c],
    },
    "ipv8.attestation.wallet.payload:ChallengeResponsePayload": {
        "args": [("challenge_hash", "20s"), ("response", "raw")],
        "ref": ["20s", "raw"], "wire": lambda h, r: [h, r],
    },
}


# ---------------------------------------------------------------------------------------------
# synthetic payloads: one single-field class per registered format (interpreted and compiled VariablePayload),
# plus dataclass payloads for everything payload_dataclass.type_map can express, plus mixed layouts with a
# ``bits`` group, a nested payload and a payload list in the middle of other fields.
# ---------------------------------------------------------------------------------------------

# formats a VariablePayload cannot carry as one attribute (the packer takes several positional values)
MULTI_VALUE = tuple(name for name, letters in wire.STRUCT_FORMATS.items() if len(wire._letters(letters)) > 1)  # noqa: SLF001

c02_H = type_from_format("H")  # noqa: N816
c02_varlenH = type_from_format("varlenH")  # noqa: N816
c02_ip_address = type_from_format("ip_address")  # noqa: N816


@dataclass
class SynDcInner(DataClassPayload):
    number: int
    blob: bytes


@dataclass
class SynDcNative(DataClassPayload[77]):
    flag: bool
    number: int
    real: float
    blob: bytes
    text: str


@dataclass
class SynDcFormats(DataClassPayload):
    short: c02_H
    blob: c02_varlenH
    address: c02_ip_address


@dataclass
class SynDcLists(DataClassPayload):
    ints: list[int]
    flags: list[bool]
    reals: list[float]


@dataclass
class SynDcNested(DataClassPayload):
    before: c02_H
    inner: SynDcInner
    items: list[SynDcInner]
    after: c02_H


@vp_compile
class SynInner(VariablePayload):
    """A small payload to nest and to list."""

    format_list = ["q", "varlenH"]
    names = ["number", "blob"]


class SynVpMixed(VariablePayload):
    """Interpreted VariablePayload: a bits group between other fields, then a nested payload and a list."""

    format_list = ["H", "bits", "varlenH", SynInner, [SynInner], "ip_address", "raw"]
    names = ["first", "b0", "b1", "b2", "b3", "b4", "b5", "b6", "b7", "blob", "inner", "items", "address", "rest"]


@vp_compile
class SynVpcMixed(VariablePayload):
    """The same layout, compiled."""

    format_list = ["H", "bits", "varlenH", SynInner, [SynInner], "ip_address", "raw"]
    names = ["first", "b0", "b1", "b2", "b3", "b4", "b5", "b6", "b7", "blob", "inner", "items", "address", "rest"]


_SYN_DATACLASSES = [SynDcInner, SynDcNative, SynDcFormats, SynDcLists, SynDcNested]


def _make_single(fmt: str, compiled: bool) -> type:
    ident = "".join(ch if ch.isalnum() else "_" for ch in fmt)
    cls = type(f"Syn{'Vpc' if compiled else 'Vp'}_{ident}", (VariablePayload,),
               {"format_list": [fmt], "names": ["b0", "b1", "b2", "b3", "b4", "b5", "b6", "b7"] if fmt == "bits" else ["value"],
                "__module__": __name__})
    return vp_compile(cls) if compiled else cls


# ---------------------------------------------------------------------------------------------
# discovery
# ---------------------------------------------------------------------------------------------

_STATE: dict[str, Any] = {}


def import_library() -> list[str]:
    """Import every non-test module of the ipv8 package; returns the modules that could not be imported."""
    if "import_failures" not in _STATE:
        failures = []
        for m in pkgutil.walk_packages(ipv8.__path__, "ipv8."):
            if ".test." in m.name + "." or m.name.endswith(".test"):
                continue
            try:
                importlib.import_module(m.name)
            except Exception as e:  # noqa: BLE001  (optional platform modules: netifaces, Windows)
                failures.append(f"{m.name}: {type(e).__name__}")
        _STATE["import_failures"] = failures
    return _STATE["import_failures"]


def _walk(cls: type, seen: dict) -> None:
    for sub in cls.__subclasses__():
        if sub not in seen:
            seen[sub] = None
            _walk(sub, seen)


def library_classes() -> tuple[list[type], list[str]]:
    """(concrete Serializable classes defined by the library, names of the skipped abstract / base classes)."""
    import_library()
    seen: dict = {}
    _walk(Serializable, seen)
    concrete, skipped = [], []
    for cls in sorted(seen, key=lambda c: (c.__module__, c.__qualname__)):
        mod = cls.__module__
        if not (mod == "ipv8" or mod.startswith("ipv8.")) or ".test." in mod + ".":
            continue
        if getattr(cls, "__abstractmethods__", None) or not getattr(cls, "format_list", None):
            skipped.append(f"{mod}:{cls.__qualname__}")  # Payload, VariablePayload(WID), DataClassPayload(WID), CellablePayload
            continue
        concrete.append(cls)
    return concrete, skipped


def overlay_serializer_classes() -> list[type]:
    """Every overlay class that defines its own get_serializer()."""
    import_library()
    from ipv8.overlay import Overlay
    seen: dict = {Overlay: None}
    _walk(Overlay, seen)
    return sorted((c for c in seen if "get_serializer" in c.__dict__ and c.__module__.startswith("ipv8.")
                   and ".test." not in c.__module__ + "."), key=lambda c: (c.__module__, c.__qualname__))


def serializer() -> Serializer:
    """
    One Serializer holding the default packers plus every packer any overlay registers in get_serializer()
    (obtained by calling the real get_serializer of each overlay class on an uninitialised instance).
    """
    if "serializer" not in _STATE:
        union = Serializer()
        sources: dict[str, str] = {name: "default" for name in union.get_available_formats()}
        for ocls in overlay_serializer_classes():
            # an uninitialised instance is enough: get_serializer() reads no instance state (abstract overlay
            # classes get their abstract methods stubbed out so that they can be allocated)
            stub = type(ocls.__name__, (ocls,), {m: None for m in getattr(ocls, "__abstractmethods__", ())})
            ser = stub.get_serializer(object.__new__(stub))
            for name in ser.get_available_formats():
                if name in sources:
                    continue
                packer = ser.get_packer_for(name)
                sources[name] = f"{ocls.__module__}:{ocls.__qualname__}"
                union.add_packer(name, packer)
        _STATE["serializer"] = union
        _STATE["packer_sources"] = sources
    return _STATE["serializer"]


def packer_sources() -> dict[str, str]:
    serializer()
    return _STATE["packer_sources"]


def class_key(cls: type) -> str:
    return f"{cls.__module__}:{cls.__qualname__}"


def _origin(cls: type) -> str:
    if issubclass(cls, DataClassPayload) or any(b.__name__ == "DataClassPayloadWID" for b in cls.__mro__):
        return "dataclass"
    if issubclass(cls, VariablePayload):
        return "compiled" if cls.to_pack_list is not VariablePayload.to_pack_list else "variable"
    return "hand-written"


_SPECS: dict[str, ClassSpec] = {}
_BY_CLASS: dict[type, ClassSpec] = {}
_NOT_COVERED: dict[str, str] = {}


def spec_by_key(key: str) -> ClassSpec:
    all_specs()
    return _SPECS[key]


def spec_for_class(cls: type) -> ClassSpec:
    if cls in _BY_CLASS:
        return _BY_CLASS[cls]
    key = _STATE.get("syn_keys", {}).get(cls) or class_key(cls)
    name = cls.__name__
    spec = ClassSpec(key, cls, name, _origin(cls))
    if key in HAND_WRITTEN:
        table = HAND_WRITTEN[key]
        spec.fields = [Field([arg], kind, _KIND[kind] if kind in _KIND else alphabet_for(kind))
                       for arg, kind in table["args"]]
        spec.ref_format_list = list(table["ref"])
        spec._wire = table["wire"]  # noqa: SLF001
        if [f if isinstance(f, str) else "?" for f in cls.format_list] != table["ref"]:
            _NOT_COVERED[key] = f"format_list {cls.format_list!r} differs from the specified layout {table['ref']!r}"
    elif issubclass(cls, VariablePayload):
        custom = sorted(a for a in dir(cls) if a.startswith(("fix_pack_", "fix_unpack_")))
        if custom:
            _NOT_COVERED[key] = f"custom field rules {custom} have no specification in the C02 tables"
        names = list(cls.names)
        index = 0
        for fmt in cls.format_list:
            if not wire.known(fmt):
                _NOT_COVERED[key] = f"format {fmt!r} is unknown to the reference codec"
                break
            width = 8 if fmt == "bits" else 1
            spec.fields.append(Field(names[index:index + width], fmt, alphabet_for(fmt)))
            index += width
        spec.ref_format_list = wire.normalise(list(cls.format_list))
        if len(cls.format_list) == 1 and isinstance(cls.format_list[0], str):
            spec.single_format = cls.format_list[0]
    else:
        _NOT_COVERED[key] = "hand-written Serializable without an entry in mc/ref/c02_domain.HAND_WRITTEN"
    _BY_CLASS[cls] = spec
    _SPECS[key] = spec
    return spec


def all_specs() -> dict[str, ClassSpec]:
    """key -> ClassSpec for every library class and every synthetic class (built once, before forking)."""
    if "built" in _STATE:
        return _SPECS
    _STATE["built"] = True
    concrete, skipped = library_classes()
    _STATE["skipped_bases"] = skipped
    ser = serializer()
    syn_keys: dict[type, str] = {}
    synthetic: list[type] = []
    for dc in _SYN_DATACLASSES:
        # the first instantiation turns a dataclass definition into a payload class (format_list, names, compiled)
        dc(*[None for _ in dc.__dataclass_fields__])
        syn_keys[dc] = f"syn:dc:{dc.__name__}"
        synthetic.append(dc)
    for cls, key in ((SynInner, "syn:vpc:inner"), (SynVpMixed, "syn:vp:mixed"), (SynVpcMixed, "syn:vpc:mixed")):
        syn_keys[cls] = key
        synthetic.append(cls)
    for fmt in ser.get_available_formats():
        if fmt in ("payload", "payload-list") or fmt in MULTI_VALUE or not wire.known(fmt):
            continue
        for compiled in (False, True):
            cls = _make_single(fmt, compiled)
            syn_keys[cls] = f"syn:{'vpc' if compiled else 'vp'}:{fmt}"
            synthetic.append(cls)
    _STATE["syn_keys"] = syn_keys
    for cls in [*concrete, *synthetic]:
        spec = spec_for_class(cls)
        if cls in syn_keys and spec.single_format is not None:
            spec.name = f"Syn<{spec.single_format}>"
    for key in list(_NOT_COVERED):
        _SPECS.pop(key, None)
    return _SPECS


def not_covered() -> dict[str, str]:
    all_specs()
    return dict(_NOT_COVERED)


def skipped_bases() -> list[str]:
    all_specs()
    return list(_STATE["skipped_bases"])


def enumerate_classes(include_synthetic: bool = False) -> list[ClassSpec]:
    """Every concrete Serializable class of the library (sorted by key) as a ClassSpec with instance generators."""
    specs = all_specs()
    return [specs[k] for k in sorted(specs) if include_synthetic or specs[k].library]
