"""
Reference exit policy for C06, written from the property statement and from the protocol documents that
the DataChecker docstrings name - not from the implementation.

Two layers, kept apart on purpose:

* ``allowed(bt, ipv8, own, flags)`` - the *policy gate* of the property statement: BitTorrent-shaped packets
  need the BitTorrent-exit flag, IPv8-shaped packets need the IPv8-exit flag or must belong to the tunnel
  overlay itself, everything else is dropped.
* ``*_shaped(data)`` - what "BitTorrent-shaped" / "IPv8-shaped" means.  The statement is silent about the
  details, so these follow the documents cited in the docstrings:

  - uTP, BEP 29: 20-byte header; first byte = type (high nibble, ST_DATA..ST_SYN = 0..4) and version
    (low nibble, 1); second byte = first extension, 0..3 (0 none, 1 selective ack, 2 deprecated extension
    bits, 3 close reason - the list given in the docstring).
  - UDP tracker, BEP 15: every response starts with ``action(4) transaction_id(4)`` (8 bytes at least),
    every request with ``connection_id(8) action(4)``; action is connect/announce/scrape/error = 0..3.
    Only the presence of the action field is demanded for requests (12 bytes), not the 16 bytes of a
    complete request: the docstring only talks about the action field.
  - DHT, BEP 5: a KRPC message is one bencoded dictionary: it starts with ``d`` and ends with ``e`` and the
    shortest one is ``de``.  The classifier is a could-be test, so the reference is this necessary condition;
    ``is_bencoded_dict`` (a complete parser) is used for the converse on well-formed samples only.
  - IPv8: ``00`` + version byte + 20-byte community id + message id, i.e. at least 23 bytes; version 2 is
    ``Community.version``, version 1 the previous wire format that shares the prefix layout.
"""
from __future__ import annotations

FLAG_RELAY = 1
FLAG_EXIT_BT = 2
FLAG_EXIT_IPV8 = 4
FLAG_SPEED_TEST = 8

UTP_HEADER = 20
UTP_TYPES = {0: "ST_DATA", 1: "ST_FIN", 2: "ST_STATE", 3: "ST_RESET", 4: "ST_SYN"}
UTP_VERSION = 1
UTP_EXTENSIONS = {0: "none", 1: "selective ack", 2: "deprecated", 3: "close reason"}

TRACKER_ACTIONS = {0: "connect", 1: "announce", 2: "scrape", 3: "error"}

IPV8_VERSIONS = (1, 2)
IPV8_PREFIX_LEN = 22


def utp_shaped(d: bytes) -> bool:
    if len(d) < UTP_HEADER:
        return False
    typ, ver = divmod(d[0], 16)
    return typ in UTP_TYPES and ver == UTP_VERSION and d[1] in UTP_EXTENSIONS


def tracker_shaped(d: bytes) -> bool:
    response = len(d) >= 8 and int.from_bytes(d[0:4], "big") in TRACKER_ACTIONS
    request = len(d) >= 12 and int.from_bytes(d[8:12], "big") in TRACKER_ACTIONS
    return response or request


def dht_shaped(d: bytes) -> bool:
    return len(d) >= 2 and d[0] == ord("d") and d[len(d) - 1] == ord("e")


def bt_shaped(d: bytes) -> bool:
    return utp_shaped(d) or tracker_shaped(d) or dht_shaped(d)


def ipv8_shaped(d: bytes) -> bool:
    return len(d) >= IPV8_PREFIX_LEN + 1 and d[0] == 0 and d[1] in IPV8_VERSIONS


def verdicts(d: bytes) -> tuple:
    """(utp, udp_tracker, dht, bt, ipv8) in one go."""
    u, t, h = utp_shaped(d), tracker_shaped(d), dht_shaped(d)
    return (u, t, h, u or t or h, ipv8_shaped(d))


SHAPES = {"utp": utp_shaped, "udp_tracker": tracker_shaped, "dht": dht_shaped, "bt": bt_shaped, "ipv8": ipv8_shaped}


def allowed(bt: bool, ipv8: bool, own_overlay: bool, flags) -> bool:  # noqa: ANN001
    """The policy gate of the statement.  own_overlay: the packet carries the tunnel overlay's own prefix."""
    if bt and FLAG_EXIT_BT in flags:
        return True
    if ipv8 and FLAG_EXIT_IPV8 in flags:
        return True
    return bool(ipv8 and own_overlay)


DEFAULT_FLAGS = frozenset({FLAG_RELAY, FLAG_SPEED_TEST})   # documented default of the tunnel settings: relay, no exiting


def configured_flags(spec) -> frozenset:  # noqa: ANN001
    """The flags a node's policy is computed from: what its own operator configured, else the documented default."""
    return DEFAULT_FLAGS if spec is None else frozenset(spec)


def shape_class(bt: bool, ipv8: bool, own_overlay: bool) -> str:
    parts = [n for n, v in (("bt", bt), ("ipv8", ipv8 and not own_overlay), ("own", ipv8 and own_overlay)) if v]
    return "+".join(parts) or "other"


def is_null_address(addr) -> bool:  # noqa: ANN001
    """0.0.0.0:0, also in its IPv4-mapped IPv6 spelling (on the exit's dual-stack "::" socket that IS 0.0.0.0:0)."""
    if addr[1] != 0:
        return False
    if addr[0] == "0.0.0.0":
        return True
    try:
        import ipaddress  # noqa: PLC0415
        ip = ipaddress.ip_address(addr[0])
    except ValueError:
        return False
    return ip.version == 6 and ip.ipv4_mapped is not None and ip.ipv4_mapped.is_unspecified


# --- a complete bencode recogniser (only used to certify well-formed DHT samples) ------------------------------------

def _parse(d: bytes, i: int) -> int:
    """Return the index after the bencoded value starting at i, or raise ValueError."""
    if i >= len(d):
        raise ValueError
    c = d[i:i + 1]
    if c == b"i":
        j = d.index(b"e", i)
        body = d[i + 1:j]
        if not body or not (body.lstrip(b"-").isdigit()) or body.count(b"-") > 1:
            raise ValueError
        return j + 1
    if c == b"l":
        i += 1
        while d[i:i + 1] != b"e":
            i = _parse(d, i)
        return i + 1
    if c == b"d":
        i += 1
        while d[i:i + 1] != b"e":
            if not d[i:i + 1].isdigit():
                raise ValueError
            i = _parse(d, i)
            i = _parse(d, i)
        return i + 1
    if c.isdigit():
        j = d.index(b":", i)
        n = int(d[i:j])
        if j + 1 + n > len(d):
            raise ValueError
        return j + 1 + n
    raise ValueError


def is_bencoded_dict(d: bytes) -> bool:
    try:
        return d[:1] == b"d" and _parse(d, 0) == len(d)
    except (ValueError, IndexError):
        return False
