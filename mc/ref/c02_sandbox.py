"""
C02, co-resident overlays: the wire format of an overlay must not depend on what else lives in the process.

doc/reference/serialization.rst ("Custom serialization formats"): an overlay adds formats by overriding
``get_serializer()``; "This Serializer is sandboxed per Community instance, so you don't have to worry about breaking
other instances."  The shipped overlays do exactly that (TunnelCommunity: ``flags``, DHTCommunity: ``node-list``).

A *configuration* is a list of construction steps executed in order in ONE process, each on its own simnet node:

    ["overlay", name]   a real instance of a shipped overlay class (mc.overlays.OVERLAYS)
    ["intruder", fmt]   an application overlay (Community subclass) whose get_serializer() registers its own packer
                        under the format name ``fmt``, the way the documentation shows

Every configuration runs in a forked child (so that process-wide state a broken tree leaves behind cannot leak into the
next configuration) and returns, for every shipped overlay in it, a fingerprint of what its serializer does: per
format name the packed bytes / decoded values / end offsets of the boundary alphabet, per message class of the library
the encoding and decoding of a representative instance.  The oracle compares each fingerprint with the one of the
same overlay class constructed *alone* in a fresh process: identical bytes with and without co-residents, whatever
the construction order.  It also reports whether constructing the overlays changed ``default_serializer``'s packer
table and whether an intruder still finds its own packer under the name it registered.
"""
from __future__ import annotations

import hashlib
import itertools
import os
import pickle
import traceback
from typing import Any

from ipv8.community import Community
from ipv8.messaging.serialization import Packer, Serializer, default_serializer

from .. import overlays, simnet
from . import c02_domain as dom

PREFIX = b"\xa5"
SUFFIX = b"\x5a\xc3\x00"
MAX_VALUE_SIZE = 2048   # alphabet values larger than this are left to the main check (they add nothing here)


class PoisonPacker(Packer):
    """What an application might register under a name of its choice: one byte on the wire, a marker when decoded."""

    def pack(self, *data: Any) -> bytes:  # noqa: ANN401
        return b"\xee"

    def unpack(self, data: bytes, offset: int, unpack_list: list, *args: Any) -> int:  # noqa: ANN401
        unpack_list.append("c02-poison")
        return offset + 1


_INTRUDERS: dict[str, type] = {}


def intruder_class(fmt: str) -> type:
    """An application overlay that defines the format ``fmt`` for itself (documented way: override get_serializer)."""
    if fmt not in _INTRUDERS:
        def get_serializer(self) -> Serializer:  # noqa: ANN001
            serializer = Community.get_serializer(self)
            self.c02_packer = PoisonPacker()
            serializer.add_packer(fmt, self.c02_packer)
            return serializer

        ident = "".join(ch if ch.isalnum() else "_" for ch in fmt)
        _INTRUDERS[fmt] = type(f"C02Intruder_{ident}", (Community,), {
            "community_id": hashlib.blake2b(b"c02-intruder:" + fmt.encode(), digest_size=20).digest(),
            "get_serializer": get_serializer})
    return _INTRUDERS[fmt]


def intruder_nesting(overlay: Any, fmt: str) -> list[str]:  # noqa: ANN401
    """
    The application's own format must work through the application overlay's serializer at top level, nested and
    listed, depth 1 and 2.  The packer writes one byte (0xee) and decodes to a marker, so the expected bytes are
    known by construction: a nested payload adds a 2-byte length, a list a 1-byte count in front of that.
    """
    from ipv8.messaging.lazy_payload import VariablePayload, vp_compile  # noqa: PLC0415
    if fmt in ("payload", "payload-list"):
        return []  # the application redefined nesting itself
    from ipv8.messaging.serialization import Serializable  # noqa: PLC0415

    class leaf(Serializable):  # noqa: N801  (hand-written: VariablePayload treats the name "bits" specially)
        format_list = [fmt]

        def __init__(self, value: Any) -> None:  # noqa: ANN401
            self.value = value

        def to_pack_list(self) -> list:
            return [(fmt, self.value)]

        @classmethod
        def from_unpack_list(cls, *args: Any) -> Any:  # noqa: ANN401
            return cls(args[0])

    def wrap(inner: type, kind: str) -> type:
        return vp_compile(type("C02App" + kind, (VariablePayload,),
                               {"format_list": [inner if kind == "n" else [inner]], "names": ["held"]}))

    def ref(body: bytes, kind: str) -> bytes:
        return (b"" if kind == "n" else b"\x01") + len(body).to_bytes(2, "big") + body

    failures = []
    ser = overlay.serializer
    for path in ("", "n", "l", "nn", "ln", "nl", "ll"):   # outer kind first
        cls, inst, want = leaf, leaf("anything"), b"\xee"
        for kind in reversed(path):
            outer = wrap(cls, kind)
            inst, want, cls = outer(inst if kind == "n" else [inst]), ref(want, kind), outer
        where = {"": "at top level", "n": "nested", "l": "listed", "nn": "nested in a nested payload",
                 "ln": "nested in a listed payload", "nl": "listed in a nested payload", "ll": "listed in a listed payload"}[path]
        try:
            data = ser.pack_serializable(inst)
            obj, end = ser.unpack_serializable(cls, PREFIX + data + SUFFIX, 1)
            for kind in path:
                obj = obj.held if kind == "n" else obj.held[0]
            if data != want or obj.value != "c02-poison" or end != 1 + len(data):
                failures.append(f"{where}: encodes to {data.hex()} (expected {want.hex()}), decodes to {obj.value!r}, "
                                f"end offset {end} of {1 + len(data)}")
        except Exception as e:  # noqa: BLE001
            failures.append(f"{where}: raises {type(e).__name__}: {str(e)[:160]}")
    return failures


# ---------------------------------------------------------------------------------------------
# fingerprints
# ---------------------------------------------------------------------------------------------

def _packer_args(fmt: str, desc: Any) -> tuple:  # noqa: ANN401
    value = dom.mat(desc)
    return tuple(value) if fmt == "bits" or fmt in dom.MULTI_VALUE else (value,)


_ALPHABETS: dict[str, list] = {}


def small_alphabet(fmt: str) -> list:
    """The boundary values of a format that are used here: all up to MAX_VALUE_SIZE bytes; for ``bits`` the typical,
    all-zero, all-one and the eight single-bit bytes (the main check covers all 256).  Cached: filled in the parent
    (``configurations()``) before any worker or child is forked."""
    if fmt not in _ALPHABETS:
        values = dom.alphabet_for(fmt)
        if fmt == "bits":
            values = values[:3] + [v for v in values[3:] if sum(v["t"]) == 1]
        _ALPHABETS[fmt] = [d for d in values if dom.desc_size(d) <= MAX_VALUE_SIZE]
    return _ALPHABETS[fmt]


def format_fingerprint(ser: Serializer, fmt: str) -> tuple[str, str]:
    """(digest, short sample) of what ``ser`` does with the boundary values of one format name."""
    h = hashlib.blake2b(digest_size=12)
    sample = ""
    try:
        packer = ser.get_packer_for(fmt)
    except KeyError:
        return "missing", "format not registered"
    for desc in small_alphabet(fmt):
        try:
            enc = packer.pack(*_packer_args(fmt, desc))
        except Exception as e:  # noqa: BLE001
            h.update(b"pack-raises:" + type(e).__name__.encode())
            sample = sample or f"pack({dom.show(desc)}) raises {type(e).__name__}"
            continue
        h.update(len(enc).to_bytes(4, "big") + enc)
        sample = sample or f"pack({dom.show(desc)}) = {enc[:24].hex()}"
        for offset in (0, 1):
            data = PREFIX[:offset] + enc + (b"" if fmt == "raw" else SUFFIX)
            try:
                got: list = []
                end = packer.unpack(data, offset, got)
                value = tuple(got) if fmt == "bits" else (got[0] if len(got) == 1 else got)
                h.update(b"T" if dom.same(desc, value) else b"F" + repr(value)[:64].encode())
                h.update(end.to_bytes(4, "big", signed=True))
            except Exception as e:  # noqa: BLE001
                h.update(b"unpack-raises:" + type(e).__name__.encode())
    return h.hexdigest(), sample


_FP_WRAPPERS: dict[str, tuple[type, type]] = {}


def _fp_wrappers(spec: dom.ClassSpec) -> tuple[type, type]:
    from ipv8.messaging.lazy_payload import VariablePayload, vp_compile  # noqa: PLC0415
    if spec.key not in _FP_WRAPPERS:
        _FP_WRAPPERS[spec.key] = tuple(
            vp_compile(type("C02Fp" + kind, (VariablePayload,), {"format_list": [fl], "names": ["held"]}))
            for kind, fl in (("N", spec.cls), ("L", [spec.cls])))
    return _FP_WRAPPERS[spec.key]


def message_fingerprint(ser: Serializer, spec: dom.ClassSpec) -> tuple[str, str]:
    """(digest, short sample) of encoding and decoding a representative instance of one message class at top level,
    nested as payload and as the item of a payload-list."""
    h = hashlib.blake2b(digest_size=12)
    descs = spec.representatives()[0]
    raw_tail = bool(spec.ref_format_list) and spec.ref_format_list[-1] == "raw"
    sample = ""
    nest_cls, list_cls = _fp_wrappers(spec)
    for where, cls, make, leaf in (("", spec.cls, lambda i: i, lambda o: o),
                                   (" nested", nest_cls, nest_cls, lambda o: o.held),
                                   (" listed", list_cls, lambda i: list_cls([i]), lambda o: o.held[0])):
        try:
            enc = ser.pack_serializable(make(spec.build(descs)))
        except Exception as e:  # noqa: BLE001
            h.update(f"pack-raises{where}:{type(e).__name__}".encode())
            sample = sample or f"{spec.name}{where}: pack_serializable raises {type(e).__name__}"
            continue
        h.update(len(enc).to_bytes(4, "big") + enc)
        sample = sample or f"{spec.name} encodes to {enc[:24].hex()}{'...' if len(enc) > 24 else ''} ({len(enc)} bytes)"
        try:
            obj, end = ser.unpack_serializable(cls, PREFIX + enc + (b"" if raw_tail and not where else SUFFIX), 1)
            h.update(repr((sorted(name for name, *_ in spec.compare(descs, leaf(obj))), end)).encode())
        except Exception as e:  # noqa: BLE001
            h.update(f"unpack-raises{where}:{type(e).__name__}".encode())
    return h.hexdigest(), sample


def _class_formats(spec: dom.ClassSpec) -> frozenset:
    names: set = set()

    def walk(format_list: list) -> None:
        for fmt in format_list:
            if isinstance(fmt, str):
                names.add(fmt)
            elif isinstance(fmt, list):
                names.add("payload-list")
                walk(fmt[0].format_list)
            else:
                names.add("payload")
                walk(fmt.format_list)
    walk(spec.ref_format_list)
    return frozenset(names)


def overlay_fingerprint(overlay: Any) -> dict:  # noqa: ANN401
    """Everything the serializer of one overlay instance does, by format name and by library message class."""
    ser = overlay.serializer
    names = sorted(ser.get_available_formats())
    formats = {}
    for fmt in names:
        if fmt in ("payload", "payload-list"):
            continue  # need a class argument: exercised through the message classes below
        try:
            small_alphabet(fmt)
        except KeyError:
            continue  # a name the domain has no values for (an intruder's private name seen through a leak)
        formats[fmt] = format_fingerprint(ser, fmt)
    messages = {}
    available = set(names)
    for spec in dom.enumerate_classes():
        if _class_formats(spec) <= available:
            messages[spec.key] = message_fingerprint(ser, spec)
    return {"names": names, "formats": formats, "messages": messages}


# ---------------------------------------------------------------------------------------------
# one configuration, in a forked child
# ---------------------------------------------------------------------------------------------

def _default_table() -> dict:
    return {name: id(default_serializer.get_packer_for(name)) for name in default_serializer.get_available_formats()}


def _run_config(steps: list) -> dict:
    before = _default_table()
    world = simnet.World(("c02-sandbox", repr(steps)))
    built = []
    for i, (kind, arg) in enumerate(steps):
        node = world.add_node(f"N{i}", i)
        if kind == "overlay":
            built.append((kind, arg, overlays.make(node, arg)))
        else:
            built.append((kind, arg, node.add_overlay(intruder_class(arg))))
    after = _default_table()
    out: dict = {"overlays": [], "intruders": [], "default_changed": sorted(
        name for name in set(before) | set(after) if before.get(name) != after.get(name))}
    for kind, arg, overlay in built:
        if kind == "overlay":
            out["overlays"].append((arg, overlay_fingerprint(overlay)))
        else:
            try:
                own = overlay.serializer.get_packer_for(arg) is overlay.c02_packer
            except KeyError:
                own = False
            out["intruders"].append((arg, own, intruder_nesting(overlay, arg) if own else []))
    return out


def in_child(fn, *args) -> dict:  # noqa: ANN001, ANN002
    """Run ``fn(*args)`` (returning a picklable dict) in a forked child; {"crash": text} if it failed."""
    rfd, wfd = os.pipe()
    pid = os.fork()
    if pid == 0:
        code = 1
        try:
            os.close(rfd)
            try:
                result = fn(*args)
            except Exception:  # noqa: BLE001
                result = {"crash": traceback.format_exc()[-1500:]}
            with os.fdopen(wfd, "wb") as f:
                pickle.dump(result, f)
            code = 0
        finally:
            os._exit(code)
    os.close(wfd)
    with os.fdopen(rfd, "rb") as f:
        data = f.read()
    os.waitpid(pid, 0)
    if not data:
        return {"crash": f"child for {args!r} died without a result"}
    return pickle.loads(data)  # noqa: S301


def run_config(steps: list) -> dict:
    """Build the configuration in a forked child and return its observations ({"crash": text} if the child failed)."""
    return in_child(_run_config, steps)


def build_alone(name: str):  # noqa: ANN201
    """(world, overlay): one shipped overlay constructed alone (call inside a forked child)."""
    world = simnet.World(("c02-overlay", name))
    return world, overlays.make(world.add_node("N0", 0), name)


# ---------------------------------------------------------------------------------------------
# enumeration and comparison
# ---------------------------------------------------------------------------------------------

def overlay_names() -> list[str]:
    return sorted(overlays.OVERLAYS)


def serializer_kinds() -> list[str]:
    """One shipped overlay per distinct get_serializer() implementation (plus the base Community)."""
    seen, out = set(), []
    for name in ["Community", *overlay_names()]:
        impl = overlays.OVERLAYS[name][0].get_serializer
        if impl not in seen:
            seen.add(impl)
            out.append(name)
    return out


def intruder_formats() -> list[str]:
    """Every format name any shipped overlay's serializer knows (defaults and custom ones)."""
    return sorted(dom.serializer().get_available_formats())


def configurations(thorough: bool) -> list[list]:
    names = overlay_names()
    for fmt in intruder_formats():
        if fmt not in ("payload", "payload-list"):
            small_alphabet(fmt)
    configs: list[list] = [[["overlay", n]] for n in names]                                   # alone: the baselines
    configs += [[["overlay", a], ["overlay", b]] for a in names for b in names]               # every ordered pair
    for n in names:                                                                            # an application overlay
        for fmt in intruder_formats():                                                         # redefining one name,
            configs.append([["overlay", n], ["intruder", fmt]])                                # loaded after
            configs.append([["intruder", fmt], ["overlay", n]])                                # and before
    # shipped overlays side by side in every construction order: one per get_serializer() implementation (quick),
    # plus every further shipped overlay that inherits a custom one, up to five (thorough)
    pool = serializer_kinds()
    if thorough:
        base = overlays.OVERLAYS["Community"][0].get_serializer
        pool += [n for n in names if n not in pool and overlays.OVERLAYS[n][0].get_serializer is not base]
    configs += [[["overlay", n] for n in perm] for perm in itertools.permutations(pool[:5]) if len(perm) > 2]
    return configs


def compare(steps: list, observed: dict, baselines: dict) -> list[tuple[str, str]]:
    """(key, what) for everything in which a configuration differs from its overlays living alone."""
    out = []
    story = " then ".join(f"{arg}" if kind == "overlay" else f"an application overlay registering its own '{arg}' packer"
                          for kind, arg in steps)
    for name, fp in observed["overlays"]:
        alone = baselines[name]
        changed = [fmt for fmt in alone["formats"] if fp["formats"].get(fmt, ("missing", ""))[0] != alone["formats"][fmt][0]]
        missing = [n for n in alone["names"] if n not in fp["names"]]
        for fmt in (changed or missing)[:1]:
            now = fp["formats"].get(fmt, ("missing", "format not registered"))[1]
            out.append(("sandbox:format-changed-by-co-resident",
                        f"constructed in one process: {story}. The serializer of the {name} instance now handles "
                        f"'{fmt}' differently from a {name} living alone: {now}; alone: {alone['formats'].get(fmt, ('', '?'))[1]} "
                        f"(formats affected: {', '.join((changed or missing)[:8])})"))
        if not changed and not missing:
            moved = [k for k in alone["messages"] if fp["messages"].get(k, ("missing", ""))[0] != alone["messages"][k][0]]
            for k in moved[:1]:
                out.append(("sandbox:message-changed-by-co-resident",
                            f"constructed in one process: {story}. {name}.serializer: {fp['messages'].get(k, ('', 'cannot encode it'))[1]}; "
                            f"alone: {alone['messages'][k][1]} ({len(moved)} message classes affected)"))
    if observed["default_changed"]:
        out.append(("sandbox:default-serializer-changed",
                    f"constructing {story} changed the packer table of the process-wide default_serializer "
                    f"(names added / replaced / removed: {', '.join(observed['default_changed'][:8])})"))
    for fmt, own, nesting in observed["intruders"]:
        if nesting:
            out.append(("overlay-serializer:application-format",
                        f"constructed in one process: {story}. A payload using the application's own '{fmt}' format does "
                        f"not survive through the application overlay's serializer {nesting[0]} "
                        f"({len(nesting)} of 7 positions fail)"))
        if not own:
            out.append(("sandbox:co-resident-format-overwritten",
                        f"constructed in one process: {story}. The application overlay no longer finds its own packer "
                        f"under the name '{fmt}' it registered in its get_serializer()"))
    return out
