"""
Independent reference codec for the py-ipv8 wire format (used by C02, reusable by C03 / C20).

Written from the "Datatypes" table of doc/reference/serialization.rst ("all values are big-endian and most
follow the default Python struct format"), from the prose of that document (``raw`` swallows the remainder,
``payload`` nests another Serializable) and from the format facts stated in /verif/DESIGN.md section 6/C02
(``varlenBx2`` counts pairs, ``varlenHx20`` counts 20-byte items, ``payload`` has a 2-byte length, lists have a
1-byte count, address type bytes 1 = IPv4 / 2 = domain name / 3 = IPv6).  It deliberately shares no code with
ipv8/messaging/serialization.py: every multi-byte quantity is produced with ``int.to_bytes(..., "big")`` or a
``struct`` call with an explicit ``>``, addresses are classified with the ``ipaddress`` module.

The byte-count column of the documented table is wrong for 32s/64s/74s (it says 20) and is not used; the struct
letters in the member name are.

Wire values (what ``encode`` takes and ``decode`` returns)
----------------------------------------------------------
=====================  =======================================================================================
format                  python value
=====================  =======================================================================================
one struct letter       ``?`` bool, ``B H I l q Q`` int, ``f d`` float, ``c`` bytes of length 1
``20s 32s 64s 74s``     bytes of exactly that length
several letters         tuple with one element per letter (``BBH BH HH LL QH QL QQHHBH ccB 4SH c20s``)
``bits``                tuple of 8 ints in {0, 1}; the first is the most significant bit (0x80)
``ipv4``                ``(dotted quad, port)``: 4 + 2 bytes
``ip_address``          ``(host, port)``: type byte 1 + 4 + 2 (IPv4) or type byte 3 + 16 + 2 (IPv6)
``address``             as ``ip_address`` plus type byte 2 + H length + UTF-8 host + port (domain name)
``raw``                 bytes, everything up to the end of the buffer
``varlenH varlenI``     bytes with an H / I length prefix counting bytes; ``doublevarlenH`` is the same as varlenH
``varlenBx2``           bytes (even length) with a B prefix counting 2-byte items
``varlenHx20``          bytes (multiple of 20) with an H prefix counting 20-byte items
``varlenHutf8/Iutf8``   str, prefix counts *encoded* bytes
``varlenH-list``        list of bytes: B count, then each item as ``varlenH``
``arrayH-? -q -d``      list of bool / int / float: H count, then the items as ``?`` / ``q`` / ``d``
``flags``               list of distinct powers of two (ascending): one big-endian H holding their OR
``node-list``           list of ``(public key bytes, (host, port))``: B count, each ``ip_address`` then ``varlenH``
nested payload          list of wire values, one per entry of the nested format list; H length prefix in bytes
payload list            list of such lists: B count, then each item as a nested payload
=====================  =======================================================================================

A *format list* is a list whose entries are a format name, a ``Nested(format_list)``, any object with a
``format_list`` attribute (e.g. an ipv8 Serializable class) meaning a nested payload, or a one-element list of
one of the latter two meaning a payload list.
"""
from __future__ import annotations

import ipaddress
import struct
from typing import Any

__all__ = ["WireError", "Nested", "STRUCT_FORMATS", "FORMATS", "DOCUMENTED_FORMATS", "encode", "decode",
           "encode_payload", "decode_payload", "normalise", "is_raw_terminated", "known"]


class WireError(ValueError):
    """The bytes are not a complete, well-formed encoding (or the value cannot be encoded in this format)."""


class Nested:
    """A nested payload described by its own format list (independent of any ipv8 class)."""

    def __init__(self, format_list: list, name: str = "nested") -> None:
        self.format_list = format_list
        self.name = name

    def __repr__(self) -> str:
        return f"Nested({self.name})"


# member name of the documented table -> big-endian struct letters (only "4SH" differs from its name)
STRUCT_FORMATS: dict[str, str] = {
    "?": "?", "B": "B", "BBH": "BBH", "BH": "BH", "c": "c", "f": "f", "d": "d", "H": "H", "HH": "HH", "I": "I",
    "l": "l", "LL": "LL", "q": "q", "Q": "Q", "QH": "QH", "QL": "QL", "QQHHBH": "QQHHBH", "ccB": "ccB",
    "4SH": "4sH", "20s": "20s", "32s": "32s", "64s": "64s", "74s": "74s", "c20s": "c20s",
}

# name -> (length prefix letter, unit in bytes, is text)
_VARLEN: dict[str, tuple[str, int, bool]] = {
    "varlenBx2": ("B", 2, False),
    "varlenH": ("H", 1, False),
    "doublevarlenH": ("H", 1, False),
    "varlenI": ("I", 1, False),
    "varlenHx20": ("H", 20, False),
    "varlenHutf8": ("H", 1, True),
    "varlenIutf8": ("I", 1, True),
}

_ARRAYS: dict[str, str] = {"arrayH-?": "?", "arrayH-q": "q", "arrayH-d": "d"}

_OTHER = ("bits", "ipv4", "ip_address", "address", "raw", "varlenH-list", "payload", "payload-list")

# the rows of the documented table
DOCUMENTED_FORMATS: tuple[str, ...] = (
    "?", "B", "BBH", "BH", "c", "f", "d", "H", "HH", "I", "l", "LL", "q", "Q", "QH", "QL", "QQHHBH", "ccB", "4SH",
    "20s", "32s", "64s", "74s", "c20s", "bits", "ipv4", "raw", "varlenBx2", "varlenH", "varlenHutf8", "varlenHx20",
    "varlenH-list", "varlenI", "doublevarlenH", "payload", "payload-list", "arrayH-?", "arrayH-q", "arrayH-d")

# custom packers registered by overlays: tunnel community ("flags"), DHT community ("node-list")
_CUSTOM = ("flags", "node-list")

FORMATS: tuple[str, ...] = (*STRUCT_FORMATS, *_VARLEN, *_ARRAYS, *_OTHER, *_CUSTOM)

_WIDTH = {"B": 1, "H": 2, "I": 4}

ADDRESS_IPV4, ADDRESS_DOMAIN, ADDRESS_IPV6 = 1, 2, 3


def known(fmt: Any) -> bool:  # noqa: ANN401
    """Does this codec know the given format-list entry?"""
    if isinstance(fmt, str):
        return fmt in FORMATS
    if isinstance(fmt, list):
        return len(fmt) == 1 and not isinstance(fmt[0], (str, list)) and hasattr(fmt[0], "format_list")
    return hasattr(fmt, "format_list")


def normalise(format_list: list) -> list:
    """Turn ipv8 classes inside a format list into Nested descriptions (recursively)."""
    out: list = []
    for fmt in format_list:
        if isinstance(fmt, str):
            out.append(fmt)
        elif isinstance(fmt, list):
            out.append([_as_nested(fmt[0])])
        else:
            out.append(_as_nested(fmt))
    return out


def _as_nested(x: Any) -> Nested:  # noqa: ANN401
    if isinstance(x, Nested):
        return x
    return Nested(normalise(list(x.format_list)), getattr(x, "__name__", "nested"))


def is_raw_terminated(format_list: list) -> bool:
    """Does decoding this format list always run to the end of the buffer?"""
    return bool(format_list) and format_list[-1] == "raw"


# ---------------------------------------------------------------------------------------------
# small helpers
# ---------------------------------------------------------------------------------------------

def _uint(value: int, width: int, what: str) -> bytes:
    if not isinstance(value, int) or value < 0 or value >= 1 << (8 * width):
        msg = f"{what}: {value!r} does not fit in {width} byte(s)"
        raise WireError(msg)
    return value.to_bytes(width, "big")


def _take(data: bytes, offset: int, n: int, what: str) -> bytes:
    if offset < 0 or n < 0 or offset + n > len(data):
        msg = f"truncated {what}: need {n} byte(s) at offset {offset}, buffer has {len(data)}"
        raise WireError(msg)
    return bytes(data[offset:offset + n])


def _read_uint(data: bytes, offset: int, width: int, what: str) -> tuple[int, int]:
    return int.from_bytes(_take(data, offset, width, what), "big"), offset + width


def _struct_pack(letters: str, value: Any, what: str) -> bytes:  # noqa: ANN401
    args = value if len(_letters(letters)) > 1 else (value,)
    try:
        return struct.pack(">" + letters, *args)
    except (struct.error, TypeError) as e:
        msg = f"{what}: cannot encode {value!r}: {e}"
        raise WireError(msg) from e


def _letters(letters: str) -> list[str]:
    """Split struct letters into items ("c20s" -> ["c", "20s"])."""
    out, num = [], ""
    for ch in letters:
        if ch.isdigit():
            num += ch
        else:
            out.append(num + ch)
            num = ""
    return out


def _host_kind(host: str) -> tuple[int, bytes]:
    try:
        ip = ipaddress.ip_address(host)
    except ValueError:
        return ADDRESS_DOMAIN, host.encode("utf-8")
    return (ADDRESS_IPV4 if ip.version == 4 else ADDRESS_IPV6), ip.packed


# ---------------------------------------------------------------------------------------------
# encode
# ---------------------------------------------------------------------------------------------

def encode(fmt: Any, value: Any) -> bytes:  # noqa: ANN401, C901, PLR0911, PLR0912
    """Encode one wire value in the given format (name, Nested / class, or [Nested / class])."""
    if not isinstance(fmt, str):
        if isinstance(fmt, list):
            items = [encode(fmt[0], item) for item in value]
            return _uint(len(items), 1, "payload-list count") + b"".join(items)
        body = encode_payload(_as_nested(fmt).format_list, value)
        return _uint(len(body), 2, "payload length") + body
    if fmt in STRUCT_FORMATS:
        return _struct_pack(STRUCT_FORMATS[fmt], value, fmt)
    if fmt in _VARLEN:
        letter, unit, text = _VARLEN[fmt]
        if text:
            if not isinstance(value, str):
                msg = f"{fmt}: expected str, got {type(value).__name__}"
                raise WireError(msg)
            body = value.encode("utf-8")
        else:
            if not isinstance(value, (bytes, bytearray)):
                msg = f"{fmt}: expected bytes, got {type(value).__name__}"
                raise WireError(msg)
            body = bytes(value)
        if len(body) % unit:
            msg = f"{fmt}: length {len(body)} is not a multiple of {unit}"
            raise WireError(msg)
        return _uint(len(body) // unit, _WIDTH[letter], fmt + " length") + body
    if fmt in _ARRAYS:
        items = [_struct_pack(_ARRAYS[fmt], item, fmt) for item in value]
        return _uint(len(items), 2, fmt + " count") + b"".join(items)
    if fmt == "bits":
        if len(value) != 8:
            msg = "bits: need exactly 8 values"
            raise WireError(msg)
        byte = 0
        for bit in value:
            byte = (byte << 1) | (1 if bit else 0)
        return bytes([byte])
    if fmt == "ipv4":
        kind, packed = _host_kind(value[0])
        if kind != ADDRESS_IPV4:
            msg = f"ipv4: {value[0]!r} is not an IPv4 address"
            raise WireError(msg)
        return packed + _uint(value[1], 2, "port")
    if fmt in ("ip_address", "address"):
        kind, packed = _host_kind(value[0])
        port = _uint(value[1], 2, "port")
        if kind == ADDRESS_DOMAIN:
            if fmt == "ip_address":
                msg = f"ip_address: {value[0]!r} is not an IP address"
                raise WireError(msg)
            return bytes([kind]) + _uint(len(packed), 2, "host length") + packed + port
        return bytes([kind]) + packed + port
    if fmt == "raw":
        return bytes(value)
    if fmt == "varlenH-list":
        return _uint(len(value), 1, "varlenH-list count") + b"".join(encode("varlenH", item) for item in value)
    if fmt == "flags":
        number = 0
        for flag in value:
            number |= flag
        return _uint(number, 2, "flags")
    if fmt == "node-list":
        return _uint(len(value), 1, "node-list count") + b"".join(
            encode("ip_address", address) + encode("varlenH", key) for key, address in value)
    msg = f"unknown format {fmt!r} (payload / payload-list need a class: pass it as the format)"
    raise WireError(msg)


def encode_payload(format_list: list, values: list) -> bytes:
    """Encode a whole payload: the concatenation of its fields in format-list order."""
    if len(format_list) != len(values):
        msg = f"{len(values)} wire values for {len(format_list)} formats"
        raise WireError(msg)
    return b"".join(encode(fmt, value) for fmt, value in zip(format_list, values))


# ---------------------------------------------------------------------------------------------
# decode
# ---------------------------------------------------------------------------------------------

def decode(fmt: Any, data: bytes, offset: int = 0) -> tuple[Any, int]:  # noqa: ANN401, C901, PLR0911, PLR0912, PLR0915
    """Decode one value at ``offset``; returns ``(value, new_offset)``; raises WireError on truncated input."""
    if not isinstance(fmt, str):
        if isinstance(fmt, list):
            count, offset = _read_uint(data, offset, 1, "payload-list count")
            out = []
            for _ in range(count):
                item, offset = decode(fmt[0], data, offset)
                out.append(item)
            return out, offset
        size, offset = _read_uint(data, offset, 2, "payload length")
        body = _take(data, offset, size, "nested payload")
        nested = _as_nested(fmt).format_list
        values, end = decode_payload(nested, body, 0)
        if end != size:
            msg = f"nested payload declares {size} byte(s) but its fields use {end}"
            raise WireError(msg)
        return values, offset + size
    if fmt in STRUCT_FORMATS:
        letters = STRUCT_FORMATS[fmt]
        size = struct.calcsize(">" + letters)
        fields = struct.unpack(">" + letters, _take(data, offset, size, fmt))
        return (fields if len(fields) > 1 else fields[0]), offset + size
    if fmt in _VARLEN:
        letter, unit, text = _VARLEN[fmt]
        count, offset = _read_uint(data, offset, _WIDTH[letter], fmt + " length")
        body = _take(data, offset, count * unit, fmt + " body")
        if text:
            try:
                return body.decode("utf-8"), offset + count * unit
            except UnicodeDecodeError as e:
                msg = f"{fmt}: invalid UTF-8"
                raise WireError(msg) from e
        return body, offset + count * unit
    if fmt in _ARRAYS:
        letter = _ARRAYS[fmt]
        size = struct.calcsize(">" + letter)
        count, offset = _read_uint(data, offset, 2, fmt + " count")
        body = _take(data, offset, count * size, fmt + " items")
        return [struct.unpack_from(">" + letter, body, i * size)[0] for i in range(count)], offset + count * size
    if fmt == "bits":
        byte = _take(data, offset, 1, "bits")[0]
        return tuple((byte >> shift) & 1 for shift in range(7, -1, -1)), offset + 1
    if fmt == "ipv4":
        chunk = _take(data, offset, 6, "ipv4")
        return (str(ipaddress.IPv4Address(chunk[:4])), int.from_bytes(chunk[4:], "big")), offset + 6
    if fmt in ("ip_address", "address"):
        kind = _take(data, offset, 1, "address type")[0]
        if kind == ADDRESS_IPV4:
            chunk = _take(data, offset + 1, 6, "IPv4 address")
            return (str(ipaddress.IPv4Address(chunk[:4])), int.from_bytes(chunk[4:], "big")), offset + 7
        if kind == ADDRESS_IPV6:
            chunk = _take(data, offset + 1, 18, "IPv6 address")
            return (str(ipaddress.IPv6Address(chunk[:16])), int.from_bytes(chunk[16:], "big")), offset + 19
        if kind == ADDRESS_DOMAIN and fmt == "address":
            length, pos = _read_uint(data, offset + 1, 2, "host length")
            host = _take(data, pos, length, "host name")
            port, end = _read_uint(data, pos + length, 2, "port")
            try:
                return (host.decode("utf-8"), port), end
            except UnicodeDecodeError as e:
                msg = "address: host name is not UTF-8"
                raise WireError(msg) from e
        msg = f"{fmt}: unknown address type {kind}"
        raise WireError(msg)
    if fmt == "raw":
        if offset > len(data):
            msg = "raw: offset beyond the buffer"
            raise WireError(msg)
        return bytes(data[offset:]), len(data)
    if fmt == "varlenH-list":
        count, offset = _read_uint(data, offset, 1, "varlenH-list count")
        out = []
        for _ in range(count):
            item, offset = decode("varlenH", data, offset)
            out.append(item)
        return out, offset
    if fmt == "flags":
        number, offset = _read_uint(data, offset, 2, "flags")
        return [1 << i for i in range(16) if number & (1 << i)], offset
    if fmt == "node-list":
        count, offset = _read_uint(data, offset, 1, "node-list count")
        nodes = []
        for _ in range(count):
            address, offset = decode("ip_address", data, offset)
            key, offset = decode("varlenH", data, offset)
            nodes.append((key, address))
        return nodes, offset
    msg = f"unknown format {fmt!r}"
    raise WireError(msg)


def decode_payload(format_list: list, data: bytes, offset: int = 0) -> tuple[list, int]:
    """Decode a whole payload starting at ``offset``; returns ``(wire values, new_offset)``."""
    values = []
    for fmt in format_list:
        value, offset = decode(fmt, data, offset)
        values.append(value)
    return values, offset
