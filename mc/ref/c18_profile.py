"""
Reference for the exact-match proof of C18, written from the property statement.

The attested number is written with ``bitspace`` binary digits (most significant first) and cut into
``bitspace / 2`` consecutive pairs.  The *profile* is how many pairs contain zero, one and two set bits.
After n honest answers the verifier holds exactly that profile; the attested value then scores 1 - 2^-n and a
value with any other profile scores 0.
"""
from __future__ import annotations

import hashlib


def pair_sums(number: int, bitspace: int) -> list[int]:
    """Number of set bits in each consecutive pair, most significant pair first."""
    assert 0 <= number < (1 << bitspace) and bitspace % 2 == 0
    out = []
    for k in range(bitspace // 2):
        shift = bitspace - 2 * (k + 1)
        two = (number >> shift) & 3
        out.append((two >> 1) + (two & 1))
    return out


def profile(number: int, bitspace: int) -> tuple[int, int, int]:
    sums = pair_sums(number, bitspace)
    return (sums.count(0), sums.count(1), sums.count(2))


HASHES = {
    "sha256_4": (lambda v: hashlib.sha256(v).digest()[:4], 32),
    "sha256": (lambda v: hashlib.sha256(v).digest(), 256),
    "sha512": (lambda v: hashlib.sha512(v).digest(), 512),
}


def hashed_number(mode: str, value: bytes) -> tuple[int, int]:
    fn, bits = HASHES[mode]
    return int.from_bytes(fn(value), "big"), bits


def full_score(pairs: int) -> float:
    return 1.0 - 2.0 ** (-pairs)
