"""
C15 reference model, written from the property statement (not from ipv8/dht):

    A node stores values only for a requester that presents a token this node issued to that same
    requester (address and key) within the validity window, and only within the size and count limits.
    A lookup reports data as signed by a key only if the signature verifies under that key, reports the
    highest version it saw per signer, and a stored newer version is never replaced by an older one.
    Values past their lifetime are gone after maintenance.

Where the statement is silent the model is *nondeterministic*: it returns every allowed outcome and the
harness lets the implementation pick one (and then commits that choice).  Silent points:
  * a put with a version *equal* to the stored one (may replace/refresh or be ignored),
  * an older version arriving for an entry that is already past its lifetime but not yet cleaned,
  * an entry whose age is *exactly* its lifetime when maintenance runs,
  * a token that is older than one rotation but not older than TOKEN_LIFETIME,
  * the other values of a request that also carries an oversized value / more than MAX_VALUES values.

Trusted base: ipv8_rust_tunnels.PublicKey.verify (called directly, not through ECCrypto).
"""
from __future__ import annotations

import struct
from dataclasses import dataclass

from ipv8_rust_tunnels import PublicKey as RustPublicKey

# the limits the statement refers to, as named in the header of ipv8/dht/community.py
MAX_ENTRY_SIZE = 170
MAX_VALUES_IN_STORE = 8
MAX_ENTRY_AGE = 3600
TOKEN_LIFETIME = 600      # "Maximum number of seconds a token can remain valid"


# ---------------------------------------------------------------------------------------------------------------------
# values
# ---------------------------------------------------------------------------------------------------------------------

def parse_value(raw: bytes):  # noqa: ANN201
    """
    Serialized DHT value -> (data, signer public key bin or None, version) or None if it is not a well-formed value
    or its signature does not verify under the key it names.

    Layout: 00 data...                                     unsigned, version 0
            01 len(2) data version(4) len(2) key signature signed; the signature covers everything before it
    """
    if not raw:
        return None
    if raw[0] == 0:
        return raw[1:], None, 0
    if raw[0] != 1:
        return None
    try:
        (dlen,) = struct.unpack_from(">H", raw, 1)
        data = raw[3:3 + dlen]
        off = 3 + dlen
        (version,) = struct.unpack_from(">I", raw, off)
        off += 4
        (klen,) = struct.unpack_from(">H", raw, off)
        off += 2
        key = raw[off:off + klen]
        off += klen
    except struct.error:
        return None
    if len(data) != dlen or len(key) != klen:
        return None
    try:
        pk = RustPublicKey(key)
        siglen = pk.get_signature_length()
        if len(raw) < off + siglen:
            return None
        if not pk.verify(raw[-siglen:], raw[:-siglen]):
            return None
    except Exception:  # noqa: BLE001
        return None
    return data, key, version


def signer_id(raw: bytes):  # noqa: ANN201
    """Identity under which a value is kept: the signer for signed values, the content for unsigned ones."""
    p = parse_value(raw)
    if p is None:
        return None
    return ("pk", p[1]) if p[1] is not None else ("content", raw)


# ---------------------------------------------------------------------------------------------------------------------
# value store: dict keyed by (key, signer)
# ---------------------------------------------------------------------------------------------------------------------

@dataclass(frozen=True)
class Entry:
    data: bytes
    version: int
    stored_at: float
    max_age: float

    def age(self, now: float) -> float:
        return now - self.stored_at


class RefStore:
    def __init__(self) -> None:
        self.entries: dict[tuple, Entry] = {}

    def put_outcomes(self, key, sid, data: bytes, version: int, max_age: float, now: float) -> list:  # noqa: ANN001
        """Allowed contents of slot (key, sid) after the put; the first one is the conventional outcome."""
        old = self.entries.get((key, sid))
        new = Entry(data, version, now, max_age)
        if old is None or version > old.version:
            return [new]
        if version == old.version:
            return [new, old]
        if old.age(now) > old.max_age:
            return [old, new]         # past its lifetime, waiting for maintenance: the statement does not say
        return [old]                  # a stored newer version is never replaced by an older one

    def commit(self, key, sid, entry: Entry | None) -> None:  # noqa: ANN001
        if entry is None:
            self.entries.pop((key, sid), None)
        else:
            self.entries[(key, sid)] = entry

    def maintenance(self, now: float) -> dict:
        """slot -> 'gone' | 'kept' | 'either' for one maintenance run at time ``now``."""
        out = {}
        for slot, e in self.entries.items():
            a = e.age(now)
            out[slot] = "gone" if a > e.max_age else ("kept" if a < e.max_age else "either")
        return out

    def for_key(self, key) -> dict:  # noqa: ANN001
        return {sid: e for (k, sid), e in self.entries.items() if k == key}

    def canonical(self, now: float) -> tuple:
        return tuple(sorted(((repr(k), repr(s)), e.data, e.version, round(e.age(now), 6), e.max_age)
                            for (k, s), e in self.entries.items()))


# ---------------------------------------------------------------------------------------------------------------------
# tokens: (issuer is implicit) token bytes -> (requester address, requester key, time of issue, epoch)
# ---------------------------------------------------------------------------------------------------------------------

class RefTokens:
    def __init__(self) -> None:
        self.epoch = 0
        self.issued: dict[bytes, list] = {}

    def rotate(self) -> None:
        self.epoch += 1

    def issue(self, token: bytes, address: tuple, key: bytes, now: float) -> None:
        self.issued.setdefault(token, []).append((tuple(address), key, now, self.epoch))

    def judge(self, token: bytes, address: tuple, key: bytes, now: float) -> tuple[str, str]:
        """
        ('reject'|'accept'|'either', reason class).  'reject' and 'accept' are obligations, 'either' is not decided
        by the statement (older than one rotation but inside the documented lifetime).
        """
        grants = self.issued.get(token, [])
        if not grants:
            return "reject", "never-issued"
        mine = [g for g in grants if g[0] == tuple(address) and g[1] == key]
        if not mine:
            same_key = any(g[1] == key for g in grants)
            same_addr = any(g[0] == tuple(address) for g in grants)
            return "reject", ("other-address" if same_key else "other-key" if same_addr else "other-requester")
        latest = max(mine, key=lambda g: g[2])
        if now - latest[2] > TOKEN_LIFETIME:
            return "reject", "expired"
        if latest[3] == self.epoch:
            return "accept", "fresh"
        return "either", "rotated"


# ---------------------------------------------------------------------------------------------------------------------
# what a reader may report for the serialized values it saw
# ---------------------------------------------------------------------------------------------------------------------

def check_report(report, seen: list) -> list:  # noqa: ANN001
    """
    report: iterable of (data, public key bin or None) as returned by find_values; seen: every serialized value that
    reached the reader.  Returns a list of (class, text) complaints.
    """
    best: dict[bytes, tuple[int, set]] = {}
    unsigned = set()
    for raw in seen:
        p = parse_value(raw)
        if p is None:
            continue
        data, pk, version = p
        if pk is None:
            unsigned.add(data)
        elif pk not in best or version > best[pk][0]:
            best[pk] = (version, {data})
        elif version == best[pk][0]:
            best[pk][1].add(data)
    out = []
    reported_signers = []
    for data, pk in report:
        if pk is None:
            if data not in unsigned:
                out.append(("phantom-unsigned", f"reports unsigned data {data!r} that no response contained"))
            continue
        reported_signers.append(pk)
        if pk not in best:
            out.append(("unauthentic-reported", f"reports {data!r} as signed by {pk[-8:].hex()} but no value it saw "
                                                "verifies under that key"))
        elif data not in best[pk][1]:
            authentic_any = any((p := parse_value(r)) is not None and p[1] == pk and p[0] == data for r in seen)
            out.append(("not-highest-version" if authentic_any else "unauthentic-reported",
                        f"reports {data!r} for signer {pk[-8:].hex()}; highest authentic version seen is "
                        f"{best[pk][0]} with data {sorted(best[pk][1])!r}"))
    for pk in best:
        n = reported_signers.count(pk)
        if n == 0:
            out.append(("signer-missing", f"saw an authentic value of signer {pk[-8:].hex()} but reports none"))
        elif n > 1:
            out.append(("signer-reported-twice", f"signer {pk[-8:].hex()} reported {n} times"))
    return out
