"""
Reference model for C10: one small state machine per request, written from the property statement.

    (never added) --add--> OUTSTANDING --pop / response--------> CLAIMED      (timeout must never fire)
                                       --timeout fires---------> TIMED_OUT    (fires once; later pops find nothing)
                                       --clear() / shutdown()--> CANCELLED    (timeout must never fire)

The model is fed with what was *observed* (calls with their results, callbacks), in the order it happened, and
answers with the disagreements.  It knows nothing about tasks, timers or loop iterations.
"""
from __future__ import annotations

NEW, OUTSTANDING, CLAIMED, TIMED_OUT, CANCELLED = "new", "outstanding", "claimed", "timed_out", "cancelled"
EPS = 1e-9


class RefCaches:
    def __init__(self, slots: list[tuple]) -> None:
        """slots: (identity index, timeout delay, kind of tied future or None) per cache object."""
        self.spec = list(slots)
        n = len(slots)
        self._state = [NEW] * n
        self._deadline: list = [None] * n
        self._cancelled_by: list = [None] * n
        self._prev_end = ["-"] * n           # how the previous registration of the same object ended (for keys only)
        self._fut: list = [None] * n         # what the statement implies for the tied future right now
        self.shutdown = False
        self.shutdown_done = False

    # --- queries ---------------------------------------------------------------------------------
    def holder(self, ident: int):  # noqa: ANN201
        for s, (i, _, _) in enumerate(self.spec):
            if i == ident and self._state[s] == OUTSTANDING:
                return s
        return None

    def state(self, s: int) -> str:
        return self._state[s]

    def state_name(self, s: int) -> str:
        if self._state[s] == CANCELLED:
            return f"cancelled-by-{self._cancelled_by[s]}"
        return self._state[s]

    def deadline(self, s: int):  # noqa: ANN201
        return self._deadline[s]

    def future_expectation(self, s: int):  # noqa: ANN201
        return self._fut[s]

    def describe(self, ident: int) -> str:
        if self.holder(ident) is not None:
            return "identity-outstanding"
        names = sorted({self.state_name(s) for s, (i, _, _) in enumerate(self.spec) if i == ident})
        return "identity-free:" + "/".join(names)

    def registration(self, s: int) -> str:
        """Coarse feature for violation keys: was this object registered before?"""
        return "first-registration" if self._prev_end[s] == "-" else "re-added-object"

    def describe_slot(self, s: int) -> str:
        return f"{self.state_name(s)}|{self.registration(s)}"

    def canonical(self, now: float) -> tuple:
        return (tuple((self._state[s], None if self._state[s] != OUTSTANDING else round(self._deadline[s] - now, 6),
                       self._cancelled_by[s], self._fut[s]) for s in range(len(self.spec))),
                self.shutdown, self.shutdown_done)

    # --- observations ----------------------------------------------------------------------------
    def observe(self, e: tuple) -> list:
        kind = e[0]
        return getattr(self, "_on_" + kind.replace("-", "_"))(*e[1:])

    def _on_add(self, s: int, t: float, passthrough, res: str) -> list:  # noqa: ANN001
        ident, delay, fut_kind = self.spec[s]
        v = []
        if self.shutdown:
            if res != "none":
                v.append(("add-after-shutdown-accepted", f"add(slot {s}) at t={t} after shutdown returned {res}"))
            if fut_kind is not None:
                self._fut[s] = ("cancelled",)
            return v
        h = self.holder(ident)
        if h is not None:
            if res != "none":
                v.append((f"duplicate-add-accepted|{'same-object' if h == s else 'other-object'}",
                          f"add(slot {s}) at t={t} returned {res} although slot {h} is outstanding under the same "
                          f"(prefix, number)"))
            if h != s:
                self._fut[s] = None  # a refused request: the statement says nothing about its future
            return v
        if res != "self":
            v.append((f"add-failed|{res.split(':')[1] if res.startswith('exc:') else res}",
                      f"add(slot {s}) at t={t} returned {res} although the identity is free and nothing was shut down"))
            return v
        self._prev_end[s] = self.state_name(s) if self._state[s] != NEW else "-"
        self._state[s] = OUTSTANDING
        self._cancelled_by[s] = None
        self._deadline[s] = t + (delay if passthrough is None else passthrough)
        self._fut[s] = None if fut_kind is None else ("pending",)
        return v

    def _on_pop(self, ident: int, t: float, res, via: str) -> list:  # noqa: ANN001
        h = self.holder(ident)
        v = []
        if h is None:
            if res != "KeyError":
                what = self.describe_slot(res) if isinstance(res, int) else str(res)
                v.append((f"pop-found-something|{what}", f"pop(identity {ident}) via {via} at t={t} returned {res!r} "
                          f"although no request is outstanding under it ({self.describe(ident)})"))
            return v
        if res != h:
            v.append((f"pop-missed|got:{res if isinstance(res, str) else 'other-cache'}",
                      f"pop(identity {ident}) via {via} at t={t} gave {res!r}, expected the outstanding slot {h}"))
            return v
        self._state[h] = CLAIMED
        if self.spec[h][2] is not None:
            self._fut[h] = ("response",)
        return v

    def _on_wait(self, ident: int, t: float, res: str) -> list:
        """wait_for() only observes registration: it changes nothing about how a request ends."""
        return []

    def _on_query(self, ident: int, t: float, has: bool, got, ctor_refused: bool) -> list:  # noqa: ANN001
        """A look-up made from inside a callback: it must see the table as the statement implies it at that moment."""
        h = self.holder(ident)
        want = "outstanding" if h is not None else "free"
        if has != (h is not None) or got != h or ctor_refused != (h is not None):
            return [(f"callback-sees-table|want:{want}",
                     f"inside on_timeout at t={t}: has()={has}, get()={'slot %s' % got if got is not None else None}, "
                     f"constructor {'refused' if ctor_refused else 'accepted'}, but identity {ident} is {want} "
                     f"({self.describe(ident)})")]
        return []

    def _on_timeout(self, s: int, t: float) -> list:
        v = []
        st = self._state[s]
        if self.shutdown:
            v.append((f"timeout-after-shutdown|{self.registration(s)}",
                      f"on_timeout of slot {s} ran at t={t}, after shutdown began (request was {self.state_name(s)}, "
                      f"previous registration of the object ended {self._prev_end[s]})"))
        elif st != OUTSTANDING:
            v.append((f"timeout-fired-when:{self.describe_slot(s)}",
                      f"on_timeout of slot {s} ran at t={t} while the request was {self.state_name(s)} "
                      f"(previous registration of the object ended {self._prev_end[s]})"))
        elif t < self._deadline[s] - EPS:
            v.append((f"timeout-early|{self.registration(s)}",
                      f"on_timeout of slot {s} ran at t={t}, its timeout is due at t={self._deadline[s]} "
                      f"(previous registration of the object ended {self._prev_end[s]})"))
        if st == OUTSTANDING:
            self._state[s] = TIMED_OUT
            kind = self.spec[s][2]
            self._fut[s] = None if kind is None else ("timeout", kind)
        return v

    def _cancel_all(self, by: str) -> None:
        for s in range(len(self.spec)):
            if self._state[s] == OUTSTANDING:
                self._state[s] = CANCELLED
                self._cancelled_by[s] = by
                if self.spec[s][2] is not None:
                    self._fut[s] = ("cancelled",) if by == "shutdown" else None

    def _on_clear(self, t: float) -> list:
        self._cancel_all("clear")
        return []

    def _on_shutdown_begin(self, t: float) -> list:
        self.shutdown = True
        self._cancel_all("shutdown")
        return []

    def _on_shutdown_end(self, t: float) -> list:
        self.shutdown_done = True
        return []
