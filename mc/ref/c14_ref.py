"""
Reference predicates for C14 (Kademlia routing table), written from the property statement only.

Works on plain data, never imports ipv8:

* a *bucket record* is ``(path, prefix_id, max_size, nodes)`` where ``path`` is the key under which the bucket hangs
  in the tree (a string over "01"), ``prefix_id`` is what the bucket itself believes its prefix to be, and ``nodes`` is a
  list of *node records* ``(dict_key, node_id, key_tag, failed, rtt)`` with identifiers as 160-bit ``int``s;
* "bad" means ``failed >= BAD_FAILS`` (two unanswered pings), "live" means not bad.
"""
from __future__ import annotations

WIDTH = 160
BAD_FAILS = 2


def bits(node_id: int) -> str:
    return format(node_id, "0160b")


def is_bad(failed: int) -> bool:
    return failed >= BAD_FAILS


def tree_violations(buckets: list, own_id: int) -> list:
    """The structural half of the statement; returns [(key, what)]."""
    out = []
    own = bits(own_id)
    paths = [b[0] for b in buckets]
    # prefix-free and complete
    if len(set(paths)) != len(paths):
        out.append(("tree:not-prefix-free", f"duplicate bucket prefixes in {sorted(paths)}"))
    sp = sorted(set(paths))
    for a, b in zip(sp, sp[1:]):
        if b.startswith(a):  # after sorting, a prefix is immediately followed by one of its extensions
            out.append(("tree:not-prefix-free", f"bucket {a!r} is a prefix of bucket {b!r}"))
            break
    else:
        covered = sum(1 << (WIDTH - len(p)) for p in sp if len(p) <= WIDTH)
        if covered != 1 << WIDTH or any(len(p) > WIDTH for p in sp):
            out.append(("tree:not-complete", f"buckets {sp} cover {covered} of 2^160 identifiers"))
    seen_ids: dict[int, str] = {}
    for path, prefix_id, max_size, nodes in buckets:
        if prefix_id != path:
            out.append(("tree:bucket-prefix-mismatch", f"bucket stored under {path!r} says its prefix is {prefix_id!r}"))
        if len(nodes) > max_size:
            out.append(("tree:over-capacity", f"bucket {path!r} holds {len(nodes)} nodes, capacity {max_size}"))
        # only buckets on the path of our own identifier are ever split: the parent of every bucket was split
        if path and not own.startswith(path[:-1]):
            out.append(("tree:off-path-split", f"bucket {path!r} exists, so {path[:-1]!r} was split, but our own id "
                                               f"starts with {own[:len(path)]!r}"))
        for dict_key, node_id, _key, _failed, _rtt in nodes:
            if not bits(node_id).startswith(path):
                out.append(("tree:node-in-wrong-bucket", f"node {bits(node_id)[:12]}.. sits in bucket {path!r}"))
            if dict_key != node_id:
                out.append(("tree:node-key-mismatch", f"node {bits(node_id)[:12]}.. is filed under {bits(dict_key)[:12]}.."))
            if node_id in seen_ids:
                out.append(("tree:duplicate-id", f"node {bits(node_id)[:12]}.. is in buckets {seen_ids[node_id]!r} "
                                                 f"and {path!r}"))
            seen_ids[node_id] = path
    return out


def all_nodes(buckets: list) -> list:
    return [n for b in buckets for n in b[3]]


def closest(buckets: list, target: int, k: int, exclude: int | None = None) -> list:
    """Identifiers of the k live nodes (other than ``exclude``) with the smallest XOR distance to target, nearest
    first (brute force)."""
    live = [n[1] for n in all_nodes(buckets) if not is_bad(n[3]) and n[1] != exclude]
    return sorted(live, key=lambda i: i ^ target)[:k]
