"""
C13 helper: a NAT-enforcing closed network on top of mc.simnet.World.

Model (boring on purpose, written from RFC 4787 vocabulary, independent of the library's own address logic):

* a node is either *public* (its socket address is a routable IP:port) or sits on the LAN of exactly one ``NatBox``
  with an RFC 1918 address;
* mapping is endpoint independent: the first packet an internal endpoint sends through the box allocates one public
  port that is used for every destination for the rest of the run (``ports="shift"``: 30001, 30002, ... per box;
  ``ports="keep"``: the LAN port is preserved);
* the box learns an outbound session (internal endpoint, destination ip:port) at the moment the packet is *sent* (the
  LAN hop has no latency) and filters an inbound packet when it *arrives* (= when the harness delivers it):
    - ``full``  anything addressed to a mapped port passes,
    - ``addr``  the source IP must have been sent to by that internal endpoint,
    - ``port``  the source IP:port must have been sent to by that internal endpoint,
    - a port nobody is mapped to drops everything;
* a packet addressed to the LAN address of a node on the sender's own LAN is delivered directly with the LAN source
  address (it never crosses the box, no session is created);
* a packet addressed to any other RFC 1918 address goes nowhere (no such host on the LAN / unroutable outside);
* hairpinning is NOT modelled: a packet an internal node addresses to its own box's public IP is dropped
  (reason ``hairpin``), as on the many consumer devices without NAT loopback;
* ``remap(name)``: the mapping of an internal endpoint times out (mapping, reverse entry and sessions are forgotten,
  packets to the old public port find ``no-mapping``) and its next outbound packet allocates a *different* public port
  (also in ``keep`` mode: the preferred port is still blocked); a public node is re-bound to the next port instead;
* ``expire_sessions(keep)`` forgets every outbound session except those towards ``keep`` (idle sessions time out,
  the mapping itself stays because the kept session refreshes it).

Everything that is not delivered ends up in ``drop_log`` with a reason; every send is in ``send_log``.
"""
from __future__ import annotations

import ipaddress
from dataclasses import dataclass, field

from ipv8.messaging.interfaces.udp.endpoint import UDPv4Address

from .. import simnet
from ..vloop import CURRENT_NODE

NAT_KINDS = ("none", "full", "addr", "port")

KIND_BY_MSG_ID = {246: "intro-request", 234: "intro-request", 245: "intro-response", 233: "intro-response",
                  250: "puncture-request", 232: "puncture-request", 249: "puncture", 231: "puncture"}


def msg_kind(data: bytes) -> str:
    return KIND_BY_MSG_ID.get(data[22], f"msg-{data[22]}") if len(data) > 22 else "short"


def is_private(ip: str) -> bool:
    return ipaddress.ip_address(ip).is_private


@dataclass
class NatBox:
    name: str
    public_ip: str
    kind: str                      # "full" | "addr" | "port"
    ports: str = "shift"           # "shift" | "keep"
    members: dict = field(default_factory=dict)    # LAN (ip, port) -> Node
    mapping: dict = field(default_factory=dict)    # LAN (ip, port) -> public port
    reverse: dict = field(default_factory=dict)    # public port -> LAN (ip, port)
    sessions: dict = field(default_factory=dict)   # LAN (ip, port) -> set of (ip, port) sent to
    next_port: int = 30001
    displaced: set = field(default_factory=set)    # internal endpoints whose preferred public port is blocked

    def map_out(self, lan: tuple, dst: tuple) -> tuple:
        port = self.mapping.get(lan)
        if port is None:
            if self.ports == "keep" and lan not in self.displaced:
                port = lan[1]
            else:
                port = self.next_port
                self.next_port += 1
            assert port not in self.reverse, "two internal endpoints would share a public port"
            self.mapping[lan] = port
            self.reverse[port] = lan
        self.sessions.setdefault(lan, set()).add(tuple(dst))
        return (self.public_ip, port)

    def expire_mapping(self, lan: tuple) -> int | None:
        """The mapping of this internal endpoint timed out; the next outbound packet gets another public port."""
        port = self.mapping.pop(lan, None)
        if port is not None:
            del self.reverse[port]
            if self.ports == "keep":
                self.next_port = max(self.next_port, port + 1)
        self.sessions.pop(lan, None)
        self.displaced.add(lan)
        return port

    def admit(self, src: tuple, port: int) -> tuple[tuple | None, str]:
        """(internal endpoint or None, reason) for a packet from src addressed to public_ip:port."""
        lan = self.reverse.get(port)
        if lan is None:
            return None, "no-mapping"
        sess = self.sessions.get(lan, set())
        if self.kind == "full":
            return lan, "ok"
        if self.kind == "addr":
            return (lan, "ok") if any(ip == src[0] for ip, _ in sess) else (None, "filtered:address-restricted")
        if self.kind == "port":
            return (lan, "ok") if tuple(src) in sess else (None, "filtered:port-restricted")
        raise AssertionError(self.kind)


class NatWorld(simnet.World):
    def __init__(self, seed_key: object = 0) -> None:
        super().__init__(seed_key)
        self.boxes: dict[str, NatBox] = {}
        self.box_by_ip: dict[str, NatBox] = {}
        self.public: dict[tuple, simnet.Node] = {}
        self.box_of: dict[str, NatBox | None] = {}
        self.send_log: list[dict] = []
        self.drop_log: list[dict] = []
        self.delivery_log: list[dict] = []
        self.step = 0               # number of deliveries attempted so far
        self.phase = "setup"

    # -- construction ---------------------------------------------------------------------------------------------
    def add_box(self, name: str, public_ip: str, kind: str, ports: str = "shift") -> NatBox:
        assert kind in ("full", "addr", "port") and not is_private(public_ip)
        box = NatBox(name, public_ip, kind, ports)
        self.boxes[name] = box
        self.box_by_ip[public_ip] = box
        return box

    def add_public_node(self, name: str, key_index: int, ip: str, port: int) -> simnet.Node:
        assert not is_private(ip) and ip not in self.box_by_ip
        node = self.add_node(name, key_index, UDPv4Address(ip, port))
        node.lan_ips = [ip]          # the interface of a public host carries the public address
        self.public[(ip, port)] = node
        self.box_of[name] = None
        return node

    def add_lan_node(self, name: str, key_index: int, box: NatBox, ip: str, port: int) -> simnet.Node:
        assert is_private(ip)
        node = self.add_node(name, key_index, UDPv4Address(ip, port))
        node.lan_ips = [ip]
        box.members[(ip, port)] = node
        self.box_of[name] = box
        return node

    def public_address_of(self, name: str) -> tuple | None:
        """Where the rest of the Internet sees this node (None while a LAN node has no mapping yet)."""
        node = self.nodes[name]
        box = self.box_of[name]
        if box is None:
            return tuple(node.address)
        port = box.mapping.get(tuple(node.address))
        return None if port is None else (box.public_ip, port)

    def remap(self, name: str) -> tuple:
        """NAT mapping renewal on another public port / re-bind of a public node.  Returns (old, new or None)."""
        node = self.nodes[name]
        box = self.box_of[name]
        old = self.public_address_of(name)
        if box is not None:
            box.expire_mapping(tuple(node.address))
            return old, None                      # the new mapping appears with the next outbound packet
        new = UDPv4Address(node.address[0], node.address[1] + 1)
        del self.public[tuple(node.address)]
        self.endpoints.pop(tuple(node.address), None)
        node.address = new
        node.endpoint.address = new
        self.public[tuple(new)] = node
        self.endpoints[tuple(new)] = node.endpoint
        return old, tuple(new)

    def expire_sessions(self, keep: tuple) -> None:
        keep = tuple(keep)
        for box in self.boxes.values():
            for lan, sess in box.sessions.items():
                box.sessions[lan] = {keep} & sess

    # -- routing --------------------------------------------------------------------------------------------------
    def resolve(self, sender_name: str | None, dst: tuple) -> str | None:
        """Name of the node that owns dst as seen from sender (ignoring filters); None if nobody."""
        dst = tuple(dst)
        box = self.box_of.get(sender_name) if sender_name else None
        if box is not None and dst in box.members:
            return box.members[dst].name
        if dst in self.public:
            return self.public[dst].name
        b = self.box_by_ip.get(dst[0])
        if b is not None and dst[1] in b.reverse:
            return b.members[b.reverse[dst[1]]].name
        return None

    def _log_send(self, ep, dst: tuple, data: bytes, fate: str, wire_src=None) -> dict:  # noqa: ANN001
        rec = {"seq": self.seq, "step": self.step, "phase": self.phase, "from": ep.name, "dst": tuple(dst),
               "kind": msg_kind(data), "fate": fate, "wire_src": wire_src, "to": self.resolve(ep.name, dst)}
        self.send_log.append(rec)
        if fate != "inflight":
            self.drop_log.append({**rec, "reason": fate, "at": "send"})
        return rec

    def on_send(self, ep, dst, data: bytes) -> None:  # noqa: ANN001
        self.seq += 1
        dst = (str(dst[0]), int(dst[1]))
        lan = tuple(ep.address)
        box = self.box_of[ep.name]
        note = "wan"
        if dst == ("0.0.0.0", 0):
            self._log_send(ep, dst, data, "null-address")
            return
        if box is not None and dst in box.members:
            src, note = lan, "lan"
        elif is_private(dst[0]):
            self._log_send(ep, dst, data, "private-unroutable")
            return
        elif box is not None and dst[0] == box.public_ip:
            self._log_send(ep, dst, data, "hairpin")
            return
        elif box is not None:
            src = box.map_out(lan, dst)
        else:
            src = lan
        dg = simnet.Datagram(self.seq, UDPv4Address(*src), dst, data, ep, note)
        if self.send_hook is not None:
            dg = self.send_hook(dg)
            if dg is None:
                return
        self._log_send(ep, dst, data, "inflight", tuple(src))
        self.wire_log.append(dg)
        self.inflight.append(dg)

    def deliver(self, idx: int = 0, settle: bool = True):  # noqa: ANN201
        self.step += 1
        return super().deliver(idx, settle)

    def deliver_datagram(self, dg, settle: bool = True) -> None:  # noqa: ANN001
        dst = tuple(dg.dst)
        target = None
        reason = "no-route"
        if dg.note == "lan":
            box = self.box_of[dg.sender.name]
            node = box.members.get(dst) if box is not None else None
            if node is not None:
                target, reason = node, "ok"
        elif dst in self.public:
            target, reason = self.public[dst], "ok"
        elif dst[0] in self.box_by_ip:
            box = self.box_by_ip[dst[0]]
            lan, reason = box.admit(tuple(dg.src), dst[1])
            if lan is not None:
                target = box.members[lan]
        sender = dg.sender.name if dg.sender is not None else None
        rec = {"seq": dg.seq, "step": self.step, "phase": self.phase, "from": sender, "src": tuple(dg.src), "dst": dst,
               "kind": msg_kind(dg.data), "to": self.resolve(sender, dst), "outcome": reason}
        if target is not None and not target.endpoint.is_open():
            target, rec["outcome"] = None, "endpoint-closed"
        self.delivery_log.append(rec)
        if target is None:
            self.drop_log.append({**rec, "reason": rec["outcome"], "at": "arrival"})
            self.undeliverable.append(dg)
        else:
            tok = CURRENT_NODE.set(target)
            try:
                self.loop.io_event(self._receive, target.endpoint, dg)
            finally:
                CURRENT_NODE.reset(tok)
        if settle:
            self.loop.settle()
