"""
C19 worker: the process that gets killed, and the fresh process that reopens afterwards.

Run as ``/venv/bin/python -m mc.ref.c19_worker run|check <rundir> <json-spec>`` with PYTHONPATH=/verif and
VERIF_REPO pointing at the tree under test.  This module deliberately does *not* install mc.seams: the library
runs plainly (real clock, real os.urandom, real files); only the parent harness runs under ./check.

Layout of <rundir>:
    db/identity.db (+ -wal, -shm, -journal)          IdentityDatabase, opened through IdentityManager
    db/sqlite/attestations.db (+ ...)                AttestationsDB(working_directory=db, db_name="attestations")
    ack.log                                          one JSON object per line, O_APPEND, written with os.write

ack.log events (all written by this module, never by the library):
    {"e":"S","session":n}                session n starts (before any database is opened)
    {"e":"O","db":name}                  open of database ``name`` returned
    {"e":"B","i":n,"t":table,"row":[...]}  the n-th insert_* call of this session is about to be made; row is the
                                         complete record as lowercase hex (null for NULL) in column order
    {"e":"A","i":[n,...]}                these records are acknowledged: the insert_* call has returned and the
                                         application is not inside a ``with database:`` block of that database - or
                                         the outermost such block has just been left normally (a record inserted in
                                         a block that ends with IgnoreCommits / an exception is never acknowledged)
    {"e":"C","db":name}                  close() returned
    {"e":"E"}                            session finished

Python-level crash points: ``Database.execute/executescript/executemany/commit`` are counted (class-level wrapper
installed here, not in the repository); with C19_PYKILL_AT=n the process SIGKILLs itself before
(C19_PYKILL_MODE=before) or after (=after) the n-th such call.  System-call-level crash points come from the
LD_PRELOAD shim (native/c19_crashshim.c) and need nothing here.
"""
from __future__ import annotations

import hashlib
import json
import os
import signal
import sys
import traceback

REPO = os.environ.get("VERIF_REPO", "/repo")
if REPO in sys.path:
    sys.path.remove(REPO)
sys.path.insert(0, REPO)

ID_FORMAT = "id_metadata"


# ----------------------------------------------------------------------------------------------------------------
# small helpers
# ----------------------------------------------------------------------------------------------------------------

def hx(b):  # noqa: ANN001, ANN201
    return None if b is None else bytes(b).hex()


def det_bytes(tag: str, n: int) -> bytes:
    """Deterministic, incompressible-looking filler (SHAKE-256 of the tag)."""
    return hashlib.shake_256(tag.encode()).digest(n)


class AckLog:
    def __init__(self, path: str) -> None:
        self.fd = os.open(path, os.O_WRONLY | os.O_CREAT | os.O_APPEND, 0o644)

    def ev(self, **kw) -> None:  # noqa: ANN003
        os.write(self.fd, (json.dumps(kw, separators=(",", ":")) + "\n").encode())


class BlobAttestation:
    """Stand-in for a wallet attestation object: AttestationsDB only ever calls serialize_private()."""

    def __init__(self, blob: bytes) -> None:
        self.blob = blob

    def serialize_private(self, public_key) -> bytes:  # noqa: ANN001
        return self.blob


class BlobKey:
    """Stand-in for a wallet secret key (SecretKeyProtocol)."""

    def __init__(self, raw: bytes) -> None:
        self.raw = raw

    def public_key(self):  # noqa: ANN201
        return None

    def serialize(self) -> bytes:
        return self.raw


def paths(rundir: str) -> tuple[str, str, str]:
    db = os.path.join(rundir, "db")
    return db, os.path.join(db, "identity.db"), os.path.join(db, "sqlite", "attestations.db")


def keys(spec: dict):  # noqa: ANN201
    from mc import fixtures
    own = fixtures.private_key(spec["keys"][0])
    foreign = fixtures.private_key(spec["keys"][1])
    authorities = [fixtures.private_key(i) for i in spec["keys"][2:]]
    return own, foreign, authorities


# ----------------------------------------------------------------------------------------------------------------
# run mode: one session of a workload
# ----------------------------------------------------------------------------------------------------------------

class PyPoints:
    """Counts Database.execute/executescript/executemany/commit calls and kills at the chosen one."""

    def __init__(self) -> None:
        self.n = 0
        self.kill_at = int(os.environ.get("C19_PYKILL_AT", "0") or 0)
        self.after = os.environ.get("C19_PYKILL_MODE", "before") == "after"
        self.trace: list[str] = []

    def install(self) -> None:
        from ipv8.database import Database
        for name in ("execute", "executescript", "executemany", "commit"):
            setattr(Database, name, self.wrap(name, getattr(Database, name)))

    def wrap(self, name: str, orig):  # noqa: ANN001, ANN201
        points = self

        def counted(self, *a, **kw):  # noqa: ANN001, ANN002, ANN003, ANN202
            if self._file_path.startswith(":"):
                return orig(self, *a, **kw)     # the foreign party's in-memory database is not under test
            points.n += 1
            n = points.n
            if not points.kill_at:
                what = name
                if name != "commit" and a and isinstance(a[0], str):
                    what += ":" + " ".join(a[0].split())[:40]
                points.trace.append(what)
            if n == points.kill_at and not points.after:
                os.kill(os.getpid(), signal.SIGKILL)
            try:
                return orig(self, *a, **kw)
            finally:        # "after" also when the statement raised (e.g. SELECT on a table that does not exist yet)
                if n == points.kill_at and points.after:
                    os.kill(os.getpid(), signal.SIGKILL)
        counted.__name__ = name
        return counted


class Batching:
    """Application-side bookkeeping of ``with database:`` blocks (the library's own counter is not consulted)."""

    def __init__(self) -> None:
        self.count = 0
        self.depth = {"identity": 0, "wallet": 0}
        self.deferred: dict[str, list[int]] = {"identity": [], "wallet": []}


def install_ack_wrappers(log: AckLog) -> Batching:
    """Log B before and A after every insert_* call of the two database classes (record = the complete row)."""
    from ipv8.attestation.identity.database import IdentityDatabase
    from ipv8.attestation.wallet.database import AttestationsDB

    def rows_token(self, public_key, token, *_a, **_kw):  # noqa: ANN001, ANN002, ANN003, ANN202
        return "Tokens", [public_key.key_to_bin(), token.previous_token_hash, token.signature, token.content_hash,
                          token.content]

    def rows_metadata(self, public_key, metadata, *_a, **_kw):  # noqa: ANN001, ANN002, ANN003, ANN202
        return "Metadata", [public_key.key_to_bin(), metadata.token_pointer, metadata.signature,
                            metadata.serialized_json_dict]

    def rows_attestation(self, public_key, authority_key, attestation, *_a, **_kw):  # noqa: ANN001, ANN002, ANN003, ANN202
        return "Attestations", [public_key.key_to_bin(), authority_key.key_to_bin(), attestation.metadata_pointer,
                                attestation.signature]

    def rows_blob(self, attestation, attestation_hash, secret_key, id_format, *_a, **_kw):  # noqa: ANN001, ANN002, ANN003, ANN202
        return "attestations", [attestation_hash, attestation.blob, secret_key.raw, id_format.encode()]

    def wrap(cls, dbname, name, describe):  # noqa: ANN001, ANN202
        orig = getattr(cls, name)

        def acked(self, *a, **kw):  # noqa: ANN001, ANN002, ANN003, ANN202
            if self._file_path.startswith(":"):
                return orig(self, *a, **kw)     # the foreign party's in-memory database is not under test
            table, row = describe(self, *a, **kw)
            batch.count += 1
            i = batch.count
            log.ev(e="B", i=i, t=table, row=[hx(c) for c in row])
            r = orig(self, *a, **kw)
            if batch.depth[dbname]:
                batch.deferred[dbname].append(i)    # inside ``with database:``: acknowledged when the block is left
            else:
                log.ev(e="A", i=[i])
            return r
        setattr(cls, name, acked)

    batch = Batching()
    wrap(IdentityDatabase, "identity", "insert_token", rows_token)
    wrap(IdentityDatabase, "identity", "insert_metadata", rows_metadata)
    wrap(IdentityDatabase, "identity", "insert_attestation", rows_attestation)
    wrap(AttestationsDB, "wallet", "insert_attestation", rows_blob)
    return batch


def run_session(rundir: str, spec: dict) -> dict:
    session_no = spec["session"]
    session = spec["sessions"][session_no]
    log = AckLog(os.path.join(rundir, "ack.log"))
    points = PyPoints()
    points.install()
    batch = install_ack_wrappers(log)

    from ipv8.attestation.identity.manager import IdentityManager
    from ipv8.attestation.wallet.database import AttestationsDB

    own, foreign, authorities = keys(spec)
    dbdir, identity_path, _ = paths(rundir)
    log.ev(e="S", session=session_no)

    manager = None
    wallet = None
    pseudonym = None
    creds: dict[str, object] = {}      # name -> (token, metadata) of credentials made in this process
    remote = None                       # in-memory pseudonym of the foreign identity (source of disclosures)

    def need_identity():  # noqa: ANN202
        nonlocal manager, pseudonym
        if manager is None:
            manager = IdentityManager(identity_path)
            log.ev(e="O", db="identity")
            pseudonym = manager.get_pseudonym(own)
        return pseudonym

    def need_wallet():  # noqa: ANN202
        nonlocal wallet
        if wallet is None:
            wallet = AttestationsDB(dbdir, "attestations")
            log.ev(e="O", db="wallet")
        return wallet

    net: dict = {}

    def need_net() -> dict:
        if not net:
            import ipv8.attestation.identity.community as idc
            from ipv8.messaging.interfaces.endpoint import Endpoint
            from ipv8.peer import Peer
            idc.time = lambda: 1_700_000_000.0      # the "date" field goes into the stored metadata: keep runs identical

            class Wire(Endpoint):
                """Collects what the overlay sends; nothing is delivered unless the workload does it."""

                def __init__(self, address: tuple) -> None:
                    super().__init__()
                    self.address = address
                    self.sent: list = []

                def assert_open(self) -> None:
                    pass

                def is_open(self) -> bool:
                    return True

                def get_address(self) -> tuple:
                    return self.address

                def send(self, socket_address, packet) -> None:  # noqa: ANN001
                    self.sent.append((socket_address, packet))

                async def open(self) -> bool:
                    return True

                def close(self) -> None:
                    pass

                def reset_byte_counters(self) -> None:
                    pass

            def overlay(key, address, identity_manager):  # noqa: ANN001, ANN202
                settings = idc.IdentitySettings()
                settings.my_peer = Peer(key, address)
                settings.endpoint = Wire(address)
                settings.identity_manager = identity_manager
                return idc.IdentityCommunity(settings)

            net["us"] = overlay(own, ("10.0.0.1", 7001), manager)
            net["subject"] = overlay(foreign, ("10.0.0.2", 7002), IdentityManager(":memory:"))
            net["attester"] = overlay(authorities[0], ("10.0.0.3", 7003), IdentityManager(":memory:"))
        return net

    def do(op: list) -> None:
        nonlocal remote, wallet
        kind = op[0]
        if kind == "with":
            # ("with", "identity"|"wallet", "ok"|"ignore"|"error", [ops]): the application batches through the
            # context manager of Database.  ok: the block is left normally; ignore: it ends with ``raise
            # IgnoreCommits()`` (documented way to skip the commit); error: an application error is raised inside
            # the block and caught by the caller.  Nested blocks are only used with "ok" inside "ok".
            from ipv8.database import IgnoreCommits
            _, dbname, mode, inner = op
            if dbname == "identity":
                need_identity()
                db = manager.database
            else:
                db = need_wallet()
            assert mode == "ok" or batch.depth[dbname] == 0
            batch.depth[dbname] += 1
            left_normally = False
            try:
                with db:
                    for o in inner:
                        do(o)
                    if mode == "ignore":
                        raise IgnoreCommits
                    if mode == "error":
                        msg = "application error inside the batch"
                        raise ValueError(msg)
                left_normally = mode == "ok"
            except ValueError:
                if mode != "error":
                    raise
            finally:
                batch.depth[dbname] -= 1
            if batch.depth[dbname] == 0:
                if left_normally and batch.deferred[dbname]:
                    log.ev(e="A", i=batch.deferred[dbname])
                batch.deferred[dbname] = []
        elif kind == "open":
            need_identity()
            need_wallet()
        elif kind == "cred":
            # ("cred", name, after-name|None, authority index|None): what IdentityCommunity does for a new attribute,
            # followed by the attestation of one authority (one at most: see the note on the primary key in c19.py)
            _, name, after, authority = op
            p = need_identity()
            after_md = None
            if after is not None:
                after_md = creds[after][1] if after in creds else next(
                    c.metadata for c in p.credentials if json.loads(c.metadata.serialized_json_dict)["name"] == after)
            cred = p.create_credential(hashlib.sha3_256(name.encode()).digest(), {"name": name, "v": 1}, after_md)
            assert cred is not None
            creds[name] = (p.tree.elements[cred.metadata.token_pointer], cred.metadata)
            if authority is not None:
                auth = authorities[authority]
                assert p.add_attestation(auth.pub(), p.create_attestation(cred.metadata, auth))
        elif kind in ("net_attest", "net_garbage", "net_subject"):
            # Records arrive through the real IdentityCommunity packet handlers (Community.on_packet -> lazy_wrapper ->
            # on_disclosure / on_attest), fed with the signed datagrams a real remote community produced.  The remote
            # parties keep their state in :memory: databases; ours is the file under test.
            #   ("net_attest", name)   a subject we solicited discloses a credential; we store its metadata, attest
            #                          (store the attestation) and answer
            #   ("net_garbage", name)  the same, but the metadata field carries two trailing garbage bytes: the
            #                          handler stores the valid metadata and then raises (on_packet swallows it)
            #   ("net_subject", name)  we advertise an attribute to an attester and receive its AttestPayload
            from ipv8.attestation.identity.payload import DisclosePayload
            name = op[1]
            need_identity()
            n = need_net()
            attribute_hash = hashlib.sha3_256(b"net:" + name.encode()).digest()
            if kind == "net_subject":
                n["attester"].add_known_hash(attribute_hash, name, own.pub().key_to_bin())
                n["us"].request_attestation_advertisement(n["attester"].my_peer, attribute_hash, name)
                _, packet = n["us"].endpoint.sent.pop()
                n["attester"].on_packet((n["us"].my_peer.address, packet))
                _, packet = n["attester"].endpoint.sent.pop()
                n["us"].on_packet((n["attester"].my_peer.address, packet))
            else:
                n["us"].add_known_hash(attribute_hash, name, foreign.pub().key_to_bin())
                if kind == "net_attest":
                    n["subject"].request_attestation_advertisement(n["us"].my_peer, attribute_hash, name)
                    _, packet = n["subject"].endpoint.sent.pop()
                else:
                    cred = n["subject"].self_advertise(attribute_hash, name)
                    md, tokens, atts, auths = n["subject"].pseudonym_manager.disclose_credentials([cred], set())
                    packet = n["subject"].ezr_pack(DisclosePayload.msg_id,
                                                   DisclosePayload(md + b"\x00\x01", tokens, atts, auths))
                n["us"].on_packet((n["subject"].my_peer.address, packet))
                n["us"].endpoint.sent.clear()
        elif kind == "chain":
            # ("chain", n): n credentials c0 <- c1 <- ... on our pseudonym, created in chain order (cheap inserts)
            p = need_identity()
            prev = None
            for i in range(op[1]):
                cred = p.create_credential(hashlib.sha3_256(b"c%d" % i).digest(), {"name": "c%d" % i}, prev)
                assert cred is not None
                prev = cred.metadata
                creds["c%d" % i] = (p.tree.elements[prev.token_pointer], prev)
        elif kind == "badcred":
            # ("badcred", name, after-name, "badsig"|"wrongptr"): add_credential with a valid chain token and metadata
            # that is signed by somebody else / points at another token.  add_credential returns None, but "if the
            # given metadata is invalid, the token is still inserted" - so the token's insert call has returned.
            from ipv8.attestation.identity.metadata import Metadata
            from ipv8.attestation.tokentree.token import Token
            _, name, after, how = op
            p = need_identity()
            parent = creds[after][0]
            token = Token(parent.get_hash(), content_hash=hashlib.sha3_256(name.encode()).digest(), private_key=own)
            if how == "badsig":
                md = Metadata(token.get_hash(), json.dumps({"name": name}).encode(), private_key=foreign)
            else:
                md = Metadata(parent.get_hash(), json.dumps({"name": name}).encode(), private_key=own)
            assert p.add_credential(token, md, set()) is None
            creds[name] = (token, None)
        elif kind == "content":
            # ("content", name, size): a token that carries its content (LONGBLOB column, overflow pages for large
            # sizes; size 0 = the empty byte string, size -1 = one zero byte)
            _, name, size = op
            p = need_identity()
            token = p.tree.add(b"\x00" if size < 0 else det_bytes("content:" + name, size))
            from ipv8.attestation.identity.metadata import Metadata
            md = Metadata.create(token, {"name": name, "v": 2}, own)
            assert p.add_credential(token, md, set()) is not None
            creds[name] = (token, md)
        elif kind == "latecontent":
            # ("latecontent", name, size): a token of our chain is first known by its hash only (the public form, as it
            # travels in disclosures), later the same token arrives together with its content - both through
            # add_credential; the second call stores (and acknowledges) the complete record
            _, name, size = op
            p = need_identity()
            from ipv8.attestation.identity.metadata import Metadata
            from ipv8.attestation.tokentree.token import Token
            full = Token(p.tree.genesis_hash, content=det_bytes("late:" + name, size), private_key=own)
            bare = Token.unserialize(full.get_plaintext_signed(), own.pub())
            md = Metadata.create(full, {"name": name, "v": 3}, own)
            assert p.add_credential(bare, md, set()) is not None
            assert p.add_credential(full, md, set()) is not None
            # ... and once more in its hash-only form (another peer discloses the chain): the stored content stays
            again = Token.unserialize(full.get_plaintext_signed(), own.pub())
            assert p.add_credential(again, md, set()) is not None
            creds[name] = (full, md)
        elif kind == "again":
            # ("again", name): the same credential arrives once more (INSERT OR IGNORE path)
            p = need_identity()
            token, md = creds[op[1]]
            assert p.add_credential(token, md, set()) is not None
        elif kind == "subst":
            # ("subst", n_creds, authority index|None): a foreign pseudonym discloses, we substantiate it into our database
            _, n_creds, authority = op
            need_identity()
            if remote is None:
                remote = IdentityManager(":memory:").get_pseudonym(foreign)
            made = []
            for i in range(n_creds):
                c = remote.create_credential(hashlib.sha3_256(b"f%d" % i).digest(), {"name": "f%d" % i}, None)
                if authority is not None:
                    auth = authorities[authority]
                    remote.add_attestation(auth.pub(), remote.create_attestation(c.metadata, auth))
                made.append(c)
            selector = {att.get_hash() for c in made for att in remote.database.get_attestations_over(c.metadata)}
            disclosure = remote.disclose_credentials(made, selector)
            manager.substantiate(foreign.pub(), *disclosure)
        elif kind == "blob":
            # ("blob", name, size): what AttestationCommunity.on_attestation_complete stores
            _, name, size = op
            w = need_wallet()
            w.insert_attestation(BlobAttestation(det_bytes("blob:" + name, size)),
                                 hashlib.sha1(name.encode()).digest(), BlobKey(det_bytes("key:" + name, 96)),  # noqa: S324
                                 ID_FORMAT)
        elif kind == "blob2":
            # ("blob2", name, size): the same insert through a SECOND connection of this process to the wallet file (two
            # pseudonyms of one CommunicationManager share their working directory)
            _, name, size = op
            if "wallet2" not in net:
                net["wallet2"] = AttestationsDB(dbdir, "attestations")
                log.ev(e="O", db="wallet")
            net["wallet2"].insert_attestation(BlobAttestation(det_bytes("blob:" + name, size)),
                                              hashlib.sha1(name.encode()).digest(),  # noqa: S324
                                              BlobKey(det_bytes("key:" + name, 96)), ID_FORMAT)
        elif kind == "complete":
            # ("complete", name, size, "ok"|"raises"): the wallet row is written by the real
            # AttestationCommunity.on_attestation_complete (what the last chunk of an attestation triggers), with an
            # application completion callback that returns or raises (Community.on_packet logs that and goes on).
            _, name, size, mode = op
            if "wallet" not in net:
                from ipv8.attestation.wallet.community import AttestationCommunity, AttestationSettings
                from ipv8.peer import Peer
                from ipv8.peerdiscovery.network import Network
                need_identity()
                wire = type(need_net()["us"].endpoint)
                assert wallet is None, "the overlay owns the wallet connection of this process"
                settings = AttestationSettings()
                settings.my_peer = Peer(own, ("10.0.0.1", 7001))
                settings.endpoint = wire(("10.0.0.1", 7001))
                settings.network = Network()
                settings.working_directory = dbdir
                net["wallet"] = AttestationCommunity(settings)
                wallet = net["wallet"].database
                log.ev(e="O", db="wallet")

            def completed(*_a, **_kw) -> None:  # noqa: ANN002, ANN003
                if mode == "raises":
                    raise RuntimeError("the application's completion callback failed")
            net["wallet"].set_attestation_request_complete_callback(completed)
            try:
                net["wallet"].on_attestation_complete(
                    BlobAttestation(det_bytes("blob:" + name, size)), BlobKey(det_bytes("key:" + name, 96)),
                    need_net()["subject"].my_peer, name, hashlib.sha1(name.encode()).digest(), ID_FORMAT)  # noqa: S324
            except RuntimeError:
                pass
        elif kind == "legacy":
            # ("legacy", [names], size): not library code - fabricate the file a version-1 AttestationsDB left behind
            # (schema of get_schema(1): no id_format column, option.database_version = '1'), so that the next
            # session exercises the upgrade path of check_database.  The expected record is the upgraded one.
            _, names, size = op
            import sqlite3
            _, _, wallet_path = paths(rundir)
            os.makedirs(os.path.dirname(wallet_path), exist_ok=True)
            con = sqlite3.connect(wallet_path)
            con.execute("PRAGMA page_size = 8192")
            con.execute("PRAGMA journal_mode = WAL")
            con.executescript("CREATE TABLE attestations(hash BLOB, blob LONGBLOB, key MEDIUMBLOB, PRIMARY KEY (hash));"
                              "CREATE TABLE option(key TEXT PRIMARY KEY, value BLOB);"
                              "INSERT INTO option(key, value) VALUES('database_version', '1');")
            for name in names:
                row = [hashlib.sha1(name.encode()).digest(), det_bytes("blob:" + name, size),  # noqa: S324
                       det_bytes("key:" + name, 96)]
                batch.count += 1
                log.ev(e="B", i=batch.count, t="attestations", row=[hx(c) for c in [*row, ID_FORMAT.encode()]])
                con.execute("INSERT INTO attestations (hash, blob, key) VALUES(?,?,?)", row)
                con.commit()
                log.ev(e="A", i=[batch.count])
            con.close()
        else:
            raise ValueError(op)

    def finish() -> dict:
        end = session.get("end", "close")
        if end == "close":
            if manager is not None:
                manager.database.close()
                log.ev(e="C", db="identity")
            if wallet is not None:
                wallet.close()
                log.ev(e="C", db="wallet")
        log.ev(e="E")
        out = {"py_calls": points.n, "py_trace": points.trace}
        sys.stdout.write(json.dumps(out))
        sys.stdout.flush()
        if end == "abandon":
            os._exit(0)     # no close(), no interpreter teardown: the -wal file stays as it is
        return out

    if session.get("loop"):
        # the same operations issued from inside a running asyncio event loop, all within ONE loop iteration (several
        # datagrams handled back to back); an abandoned session dies before the loop gets to run anything else
        import asyncio

        async def in_loop() -> dict:
            for op in session["ops"]:
                do(op)
            return finish()
        return asyncio.run(in_loop())

    for op in session["ops"]:
        do(op)
    return finish()


# ----------------------------------------------------------------------------------------------------------------
# check mode: a fresh process reopens through the library's reload path, then reads the files with plain sqlite3
# ----------------------------------------------------------------------------------------------------------------

def err(e: BaseException) -> str:
    tb = traceback.extract_tb(e.__traceback__)
    where = next((f"{os.path.basename(f.filename)}:{f.name}" for f in reversed(tb) if "/ipv8/" in f.filename), "")
    return f"{type(e).__name__}: {e} @ {where}"


def observe_pseudonym(manager, key, crypto) -> dict:  # noqa: ANN001
    p = manager.get_pseudonym(key)        # reload path: PseudonymManager.__init__
    pk = p.public_key
    out: dict = {"tokens": [], "metadata": [], "attestations": [], "bad": []}
    # tree.verify(t) walks from t to the root verifying every signature on the way; every token lies on the path of
    # some leaf, so verifying the leaves verifies everything (linear instead of quadratic in the chain length)
    parents = {t.previous_token_hash for t in p.tree.elements.values()}
    leaves = {h for h in p.tree.elements if h not in parents}
    for h, t in p.tree.elements.items():
        out["tokens"].append([hx(pk.key_to_bin()), hx(t.previous_token_hash), hx(t.signature), hx(t.content_hash),
                              hx(t.content)])
        if h != t.get_hash():
            out["bad"].append("token-index:" + hx(t.content_hash)[:8])
        if h in leaves and not p.tree.verify(t):
            out["bad"].append("token-path:" + hx(t.content_hash)[:8])
        if t.content is not None and hashlib.sha3_256(t.content).digest() != t.content_hash:
            out["bad"].append("token-content:" + hx(t.content_hash)[:8])
    for c in p.credentials:
        md = c.metadata
        out["metadata"].append([hx(pk.key_to_bin()), hx(md.token_pointer), hx(md.signature),
                                hx(md.serialized_json_dict)])
        if not md.verify(pk):
            out["bad"].append("metadata-signature:" + hx(md.token_pointer)[:8])
        for att in c.attestations:
            authority = manager.database.get_authority(att)
            out["attestations"].append([hx(pk.key_to_bin()), hx(authority), hx(att.metadata_pointer),
                                        hx(att.signature)])
            if att.metadata_pointer != md.get_hash():
                out["bad"].append("attestation-pointer:" + hx(att.metadata_pointer)[:8])
            if not att.verify(crypto.key_from_public_bin(authority)):
                out["bad"].append("attestation-signature:" + hx(att.metadata_pointer)[:8])
    try:        # what the rebuilt pseudonym is for: disclosing the newest credential(s) together with their token path
        p.create_disclosure({c.metadata for c in p.credentials if c.metadata.token_pointer in leaves}, set())
    except Exception as e:  # noqa: BLE001
        out["bad"].append(f"disclosure-{type(e).__name__}:" + str(e)[:16])
    out["dangling_metadata"] = sorted(hx(c.metadata.token_pointer)[:8] for c in p.credentials
                                      if c.metadata.token_pointer not in p.tree.elements)
    return out


def raw_read(path: str, tables: list[str]) -> dict:
    import sqlite3
    out: dict = {"exists": os.path.exists(path)}
    if not out["exists"]:
        return out
    try:
        con = sqlite3.connect(path)
        out["integrity"] = [r[0] for r in con.execute("PRAGMA integrity_check")]
        present = {r[0] for r in con.execute("SELECT name FROM sqlite_master WHERE type='table'")}
        out["tables"] = sorted(present)
        for t in tables:
            if t in present:
                out[t] = [[hx(c.encode() if isinstance(c, str) else c) for c in row]
                          for row in con.execute(f"SELECT * FROM {t}")]  # noqa: S608
        if "option" in present:
            out["option"] = [[k if isinstance(k, str) else bytes(k).decode(),
                              v if isinstance(v, str) else bytes(v).decode()]
                             for k, v in con.execute("SELECT key, value FROM option")]
        con.close()
    except Exception as e:  # noqa: BLE001
        out["error"] = f"{type(e).__name__}: {e}"
    return out


def check(rundir: str, spec: dict) -> dict:
    from ipv8.attestation.identity.manager import IdentityManager
    from ipv8.attestation.wallet.database import AttestationsDB
    from ipv8.keyvault.crypto import ECCrypto

    own, foreign, _ = keys(spec)
    dbdir, identity_path, wallet_path = paths(rundir)
    obs: dict = {"identity": {"exists": os.path.exists(identity_path)}, "wallet": {"exists": os.path.exists(wallet_path)}}

    if obs["identity"]["exists"]:
        o = obs["identity"]
        manager = None
        try:
            manager = IdentityManager(identity_path)
            o["open"] = "ok"
        except BaseException as e:  # noqa: BLE001
            o["open"] = err(e)
        if manager is not None:
            try:
                o["own"] = observe_pseudonym(manager, own, ECCrypto())
                o["foreign"] = observe_pseudonym(manager, foreign.pub(), ECCrypto())
                o["known_identities"] = sorted({hx(k) for k in manager.database.get_known_identities()})
                o["read"] = "ok"
            except BaseException as e:  # noqa: BLE001
                o["read"] = err(e)
            try:
                manager.database.close()
                o["close"] = "ok"
            except BaseException as e:  # noqa: BLE001
                o["close"] = err(e)

    if obs["wallet"]["exists"]:
        o = obs["wallet"]
        wallet = None
        try:
            wallet = AttestationsDB(dbdir, "attestations")      # reload path of AttestationCommunity.__init__
            o["open"] = "ok"
        except BaseException as e:  # noqa: BLE001
            o["open"] = err(e)
        if wallet is not None:
            try:
                rows = wallet.get_all()
                o["rows"] = [[hx(c) for c in row] for row in rows]
                o["by_hash_mismatch"] = [hx(row[0])[:8] for row in rows
                                         if list(wallet.get_attestation_by_hash(row[0])) != [row[1]]]
                o["read"] = "ok"
            except BaseException as e:  # noqa: BLE001
                o["read"] = err(e)
            try:
                wallet.close()
                o["close"] = "ok"
            except BaseException as e:  # noqa: BLE001
                o["close"] = err(e)

    obs["raw_identity"] = raw_read(identity_path, ["Tokens", "Metadata", "Attestations"])
    obs["raw_wallet"] = raw_read(wallet_path, ["attestations"])
    return obs


def main() -> int:
    mode, rundir, spec_json = sys.argv[1:4]
    spec = json.loads(spec_json)
    if mode == "run":
        run_session(rundir, spec)
        return 0
    if mode == "check":
        sys.stdout.write(json.dumps(check(rundir, spec)))
        return 0
    return 2


if __name__ == "__main__":
    sys.exit(main())
