"""
Reference model for C17, written from the property statement (not from the implementation).

  "A node signs an attestation for someone's attribute only if its user registered that exact attribute hash for that
   exact subject key and name (and, if the registration fixed extra metadata, exactly that metadata) less than five
   minutes earlier, the disclosed chain verifies, and it has not attested it already; it stores an incoming
   attestation only if it is validly signed by the sender.  Tokens of the own chain are handed out only to peers and
   only up to the chain position the user opened to them."

Everything here works on the documented wire formats only:

  token        prev(32) content_hash(32) signature          signed text = prev + content_hash
  metadata     token_pointer(32) json signature             signed text = pointer + json   (blobs are '>I' length-prefixed)
  attestation  metadata_pointer(32) signature               signed text = pointer
  object hash  sha3_256(signed text + signature); genesis pointer of a chain = sha3_256(public key bin)

Signatures are evaluated with the Rust primitive directly (``ipv8_rust_tunnels.PublicKey.verify``), bypassing
``ECCrypto`` / ``AbstractSignedObject.verify``, so that a mutation of those wrappers is observable.

The model is deliberately *permissive* wherever the statement is: all conditions are necessary conditions ("only if"),
so the reference keeps every registration ever made (the implementation keeps one per hash) and pools every token and
metadata blob a node was ever shown, no matter who showed it.  "Attested already" is read per metadata object (the
repository's own ``test_advertise_twice`` expects a second, newer credential over the same hash to be attested while
the registration is young).
"""
from __future__ import annotations

import json
import struct
from functools import lru_cache
from hashlib import sha3_256

from ipv8_rust_tunnels import PublicKey as _RustPublicKey

MAX_AGE = 300.0          # "less than five minutes earlier"; the harness never produces an age of exactly 300 s
RESERVED = ("name", "date", "schema")


@lru_cache(maxsize=None)
def _rust(key_bin: bytes):  # noqa: ANN202
    return _RustPublicKey(key_bin)


@lru_cache(maxsize=65536)
def sig_ok(key_bin: bytes, signature: bytes, text: bytes) -> bool:
    try:
        return bool(_rust(key_bin).verify(signature, text))
    except Exception:  # noqa: BLE001  (malformed signature/key: not valid)
        return False


def sig_len(key_bin: bytes) -> int:
    return _rust(key_bin).get_signature_length()


def obj_hash(signed_text_and_signature: bytes) -> bytes:
    return sha3_256(signed_text_and_signature).digest()


# ---- parsers for the four byte strings of a disclosure ---------------------------------------------------------------

def parse_tokens(blob: bytes, slen: int) -> list[tuple[bytes, bytes, bytes, bytes]]:
    """-> [(token_hash, prev, content_hash, signature)]; a trailing partial chunk is ignored."""
    out = []
    size = 64 + slen
    for i in range(0, len(blob) - size + 1, size):
        chunk = blob[i:i + size]
        out.append((obj_hash(chunk), chunk[:32], chunk[32:64], chunk[64:]))
    return out


def tokens_all_signed(blob: bytes, key_bin: bytes) -> bool:
    """"The disclosed chain verifies" at its weakest: every token in the message is validly signed by the discloser."""
    slen = sig_len(key_bin)
    if len(blob) % (64 + slen):
        return False
    return all(sig_ok(key_bin, sig, prev + content) for _h, prev, content, sig in parse_tokens(blob, slen))


def parse_metadata(blob: bytes, slen: int) -> list[tuple[bytes, bytes, bytes, bytes]]:
    """-> [(metadata_hash, token_pointer, json_bytes, signature)]."""
    out = []
    off = 0
    while off + 4 <= len(blob):
        n, = struct.unpack_from(">I", blob, off)
        raw = blob[off + 4:off + 4 + n]
        off += 4 + n
        if len(raw) < 32 + slen:
            continue
        out.append((obj_hash(raw), raw[:32], raw[32:-slen], raw[-slen:]))
    return out


def parse_attestation(blob: bytes, slen: int) -> tuple[bytes, bytes] | None:
    if len(blob) < 32 + slen:
        return None
    return blob[:32], blob[32:32 + slen]


# ---- the attester side: consent table ---------------------------------------------------------------------------------

class Consent:
    """What one node's user consented to sign, and what the node was shown."""

    def __init__(self, candidate_keys: list[bytes]) -> None:
        self.candidate_keys = list(candidate_keys)      # the public keys that exist in the closed world
        self.registrations: list[tuple[bytes, str, bytes, dict | None, float]] = []
        self.tokens: dict[bytes, tuple[bytes, bytes, bytes]] = {}      # hash -> (prev, content_hash, sig)
        self.metadata: dict[bytes, tuple[bytes, bytes, bytes]] = {}    # hash -> (pointer, json, sig)
        self.attested: set[bytes] = set()                              # metadata hashes this node attested
        self.attested_tokens: dict[bytes, bytes] = {}                  # token pointer -> first metadata hash attested
        self.third_party: set[bytes] = set()     # metadata hashes for which a disclosure carried somebody's attestation

    def register(self, attribute_hash: bytes, name: str, key_bin: bytes, md: dict | None, now: float) -> None:
        self.registrations.append((attribute_hash, name, key_bin, None if md is None else dict(md), now))

    def shown(self, metadata_blob: bytes, tokens_blob: bytes, attestations_blob: bytes = b"") -> None:
        slen = sig_len(self.candidate_keys[0])
        for i in range(0, len(attestations_blob) - (32 + slen) + 1, 32 + slen):
            self.third_party.add(attestations_blob[i:i + 32])
        for h, prev, content, sig in parse_tokens(tokens_blob, slen):
            self.tokens[h] = (prev, content, sig)
        for h, ptr, js, sig in parse_metadata(metadata_blob, slen):
            self.metadata[h] = (ptr, js, sig)

    def chain_verifies(self, token_hash: bytes, key_bin: bytes) -> bool:
        genesis = sha3_256(key_bin).digest()
        cur = token_hash
        for _ in range(1000):
            tok = self.tokens.get(cur)
            if tok is None:
                return False
            prev, content, sig = tok
            if not sig_ok(key_bin, sig, prev + content):
                return False
            if prev == genesis:
                return True
            cur = prev
        return False

    def judge_attest(self, metadata_pointer: bytes, now: float) -> tuple[str, str] | None:
        """
        The node is about to send an attestation over ``metadata_pointer``: None if the statement allows it, otherwise
        (reason, explanation).  Records the attestation.
        """
        verdict = self._judge(metadata_pointer, now)
        if verdict is None and metadata_pointer in self.attested:
            if metadata_pointer in self.third_party:
                verdict = ("twice-with-third-party-attestation",
                           "this metadata was attested before (a disclosure carried another authority's attestation "
                           "over the same metadata)")
            else:
                verdict = ("twice", "this metadata was attested before")
        md = self.metadata.get(metadata_pointer)
        if md is not None:
            first = self.attested_tokens.setdefault(md[0], metadata_pointer)
            if verdict is None and first != metadata_pointer:
                verdict = ("twice-same-token", "another metadata object over the same token (same registration: hash, "
                                               "name, subject) was attested before")
        self.attested.add(metadata_pointer)
        return verdict

    def _judge(self, metadata_pointer: bytes, now: float) -> tuple[str, str] | None:
        md = self.metadata.get(metadata_pointer)
        if md is None:
            return "unknown-metadata", "no metadata with this hash was ever disclosed to the node"
        ptr, js, sig = md
        owners = [k for k in self.candidate_keys if sig_ok(k, sig, ptr + js)]
        if not owners:
            return "metadata-not-signed", "the metadata is not signed by any key of this world"
        try:
            fields = json.loads(js)
            name = fields["name"]
        except Exception:  # noqa: BLE001
            return "metadata-malformed", "metadata json has no name"
        extra = {k: v for k, v in fields.items() if k not in RESERVED}
        best = (0, "unregistered-hash", "no registration for this attribute hash")
        for owner in owners:
            if not self.chain_verifies(ptr, owner):
                if best[0] < 1:
                    best = (1, "chain-unverified", "the token chain under the metadata does not verify to the genesis "
                                                   "of the metadata's signer with the tokens shown to the node")
                continue
            content_hash = self.tokens[ptr][1]
            for r_hash, r_name, r_key, r_md, r_t in self.registrations:
                if r_hash != content_hash:
                    continue
                if r_key != owner:
                    cand = (2, "wrong-subject", "the hash is registered, but for another subject key")
                elif r_name != name:
                    cand = (3, "wrong-name", f"registered under name {r_name!r}, metadata says {name!r}")
                elif r_md is not None and r_md != extra:
                    cand = (4, "wrong-metadata", f"registration fixes metadata {r_md!r}, disclosed {extra!r}")
                elif now - r_t > MAX_AGE:
                    cand = (5, "expired", f"registration is {now - r_t:.0f} s old")
                else:
                    return None
                if cand[0] > best[0]:
                    best = cand
        return best[1], best[2]


# ---- the subject side: what was opened to whom ------------------------------------------------------------------------

class Chain:
    """One node's own chain in creation order and the position its user opened to each peer key."""

    def __init__(self) -> None:
        self.tokens: list[bytes] = []          # token hashes, index = chain position
        self.opened: dict[bytes, int] = {}     # peer key bin -> number of leading tokens the peer may have

    def created(self, token_hash: bytes) -> None:
        self.tokens.append(token_hash)

    def open_to(self, key_bin: bytes) -> None:
        self.opened[key_bin] = len(self.tokens)

    def judge_tokens(self, tokens_blob: bytes, slen: int, requester: bytes | None) -> tuple[str, str] | None:
        allowed = 0 if requester is None else self.opened.get(requester, 0)
        for h, _prev, _content, _sig in parse_tokens(tokens_blob, slen):
            if h not in self.tokens:
                return "foreign-token", "response carries a token that is not on the node's chain"
            idx = self.tokens.index(h)
            if idx >= allowed:
                if requester is None or requester not in self.opened:
                    return "unpermitted-peer", f"token at chain position {idx} handed to a peer nothing was opened to"
                return "beyond-index", f"token at chain position {idx} handed out, opened only up to {allowed}"
        return None
