"""
Reference model for C16 (token tree): plain set closure, written from the property statement.

A token is the triple (previous hash, content hash, signature); its identity is SHA3-256 of the 64 + sig_len bytes
that go over the wire.  Given the tokens offered so far, the tree must contain exactly

    lfp X.  { t offered | signature of t verifies under the tree key  and  (t.prev == genesis or t.prev in X) }

Everything validly signed that is not in X is "waiting".  Nothing here looks at arrival order except
``max_waiting`` (needed because the statement only promises order independence while the bounded waiting area is
not exceeded).

Signatures are checked with the Rust primitive directly (``ipv8_rust_tunnels.PublicKey.verify``), not through
``ECCrypto`` / ``OpenSSLPK`` / ``AbstractSignedObject``.
"""
from __future__ import annotations

from hashlib import sha3_256

from ipv8_rust_tunnels import PublicKey as _RustPublicKey

_VERIFY_CACHE: dict = {}
_KEYS: dict = {}


def token_hash(prev: bytes, chash: bytes, sig: bytes) -> bytes:
    return sha3_256(prev + chash + sig).digest()


def genesis_hash(pub_bin: bytes) -> bytes:
    return sha3_256(pub_bin).digest()


def signed_by(pub_bin: bytes, prev: bytes, chash: bytes, sig: bytes) -> bool:
    """Pure function of its arguments, so it is memoised (one Rust verification per distinct token per process)."""
    k = (pub_bin, prev, chash, sig)
    r = _VERIFY_CACHE.get(k)
    if r is None:
        key = _KEYS.get(pub_bin)
        if key is None:
            key = _KEYS[pub_bin] = _RustPublicKey(pub_bin)
        try:
            r = bool(key.verify(sig, prev + chash))
        except Exception:  # noqa: BLE001 - a signature the primitive cannot even parse is not a signature
            r = False
        if len(_VERIFY_CACHE) > 200_000:
            _VERIFY_CACHE.clear()
        _VERIFY_CACHE[k] = r
    return r


def closure(genesis: bytes, valid: dict) -> set:
    """valid: {token hash: prev hash} of the validly signed offered tokens -> hashes connected to genesis."""
    contained: set = set()
    grew = True
    while grew:
        grew = False
        for h, prev in valid.items():
            if h not in contained and (prev == genesis or prev in contained):
                contained.add(h)
                grew = True
    return contained


class Expect:
    """What the statement implies after offering ``offered`` (list of (prev, chash, sig)) in this order."""

    def __init__(self, pub_bin: bytes, offered: list) -> None:
        self.genesis = genesis_hash(pub_bin)
        self.hashes = [token_hash(p, c, s) for p, c, s in offered]
        self.valid_flags = [signed_by(pub_bin, p, c, s) for p, c, s in offered]
        valid: dict = {}
        self.max_waiting = 0
        for h, ok, (p, _c, _s) in zip(self.hashes, self.valid_flags, offered):
            if ok and h not in valid:
                valid[h] = p
                waiting_now = len(valid) - len(closure(self.genesis, valid))
                self.max_waiting = max(self.max_waiting, waiting_now)
        self.valid = valid
        self.contained = closure(self.genesis, valid)
        self.waiting = set(valid) - self.contained

    def ancestors(self, h: bytes) -> list:
        """h and its chain of parents up to the token hanging off genesis (h must be contained)."""
        out = [h]
        while self.valid[out[-1]] != self.genesis:
            out.append(self.valid[out[-1]])
        return out
