"""
Reference arithmetic for C18: the ring R_p = Z_p[x]/(x^2 + x + 1), written from the textbook and not from
ipv8/attestation/wallet/primitives/value.py.

An element is a pair (u, v) meaning u + v*x.  For a prime p = 2 (mod 3) the polynomial x^2 + x + 1 has no root
in F_p, R_p is the field with p^2 elements and every non-zero element has an inverse (conjugate / norm).

An ``FP2Value`` of the library is a *fraction*: six coefficients (a, b, c, aC, bC, cC) standing for
(a + b x + c x^2) / (aC + bC x + cC x^2).  ``split`` reduces both polynomials with x^2 = -x - 1; ``value``
divides for real.  A fraction whose denominator is not invertible denotes nothing (``None``).

No fraction arithmetic, no shortcuts, no dependence on ipv8.
"""
from __future__ import annotations

ZERO = (0, 0)
ONE = (1, 0)


def reduce3(p: int, a: int, b: int, c: int) -> tuple[int, int]:
    """a + b x + c x^2  ->  (a - c) + (b - c) x   because x^2 = -1 - x."""
    return ((a - c) % p, (b - c) % p)


def split(p: int, six) -> tuple[tuple[int, int], tuple[int, int]]:  # noqa: ANN001
    a, b, c, ac, bc, cc = six
    return reduce3(p, a, b, c), reduce3(p, ac, bc, cc)


def add(p: int, s, t):  # noqa: ANN001, ANN201
    return ((s[0] + t[0]) % p, (s[1] + t[1]) % p)


def sub(p: int, s, t):  # noqa: ANN001, ANN201
    return ((s[0] - t[0]) % p, (s[1] - t[1]) % p)


def neg(p: int, s):  # noqa: ANN001, ANN201
    return ((-s[0]) % p, (-s[1]) % p)


def mul(p: int, s, t):  # noqa: ANN001, ANN201
    """(u1 + v1 x)(u2 + v2 x) = u1 u2 + (u1 v2 + v1 u2) x + v1 v2 x^2, and x^2 = -1 - x."""
    u1, v1 = s
    u2, v2 = t
    hi = v1 * v2
    return ((u1 * u2 - hi) % p, (u1 * v2 + v1 * u2 - hi) % p)


def conj(p: int, s):  # noqa: ANN001, ANN201
    """The other root of x^2 + x + 1 is x^2 = -1 - x, so conj(u + v x) = (u - v) - v x."""
    return ((s[0] - s[1]) % p, (-s[1]) % p)


def norm(p: int, s) -> int:  # noqa: ANN001
    """s * conj(s) = u^2 - u v + v^2, an element of Z_p."""
    return (s[0] * s[0] - s[0] * s[1] + s[1] * s[1]) % p


def inv(p: int, s):  # noqa: ANN001, ANN201
    """Inverse in R_p or None if s is not a unit."""
    n = norm(p, s)
    if n == 0:
        return None
    try:
        ni = pow(n, -1, p)
    except ValueError:  # only for composite p
        return None
    c = conj(p, s)
    return ((c[0] * ni) % p, (c[1] * ni) % p)


def value(p: int, num, den):  # noqa: ANN001, ANN201
    """The element num / den, or None when the denominator is not invertible."""
    di = inv(p, den)
    if di is None:
        return None
    return mul(p, num, di)


def power(p: int, s, k: int):  # noqa: ANN001, ANN201
    """s^k by plain repeated multiplication (k may be negative; then s must be a unit, else None)."""
    if k < 0:
        s = inv(p, s)
        if s is None:
            return None
        k = -k
    out = ONE if p > 1 else ZERO
    out = (out[0] % p, out[1] % p)
    for _ in range(k):
        out = mul(p, out, s)
    return out


def frac(op: str, p: int, n1, d1, n2, d2):  # noqa: ANN001, ANN201
    """Numerator and denominator of (n1/d1) op (n2/d2) by the school rule; nothing is cancelled."""
    if op == "add":
        return add(p, mul(p, n1, d2), mul(p, n2, d1)), mul(p, d1, d2)
    if op == "sub":
        return sub(p, mul(p, n1, d2), mul(p, n2, d1)), mul(p, d1, d2)
    if op == "mul":
        return mul(p, n1, n2), mul(p, d1, d2)
    if op == "floordiv":
        return mul(p, n1, d2), mul(p, d1, n2)
    raise ValueError(op)


def apply(op: str, p: int, s, t):  # noqa: ANN001, ANN201
    """s op t on *values* (field elements); None for a division by a non-unit."""
    if op == "add":
        return add(p, s, t)
    if op == "sub":
        return sub(p, s, t)
    if op == "mul":
        return mul(p, s, t)
    if op == "floordiv":
        ti = inv(p, t)
        return None if ti is None else mul(p, s, ti)
    raise ValueError(op)


def selfcheck() -> None:
    """The reference itself must be a field for p = 2, 5, 11: checked exhaustively (cheap)."""
    for p in (2, 5, 11):
        elems = [(u, v) for u in range(p) for v in range(p)]
        x = (0, 1)
        assert add(p, add(p, mul(p, x, x), x), ONE) == ZERO, "x^2 + x + 1 != 0"
        for s in elems:
            assert mul(p, s, ONE) == s and add(p, s, ZERO) == s
            assert add(p, s, neg(p, s)) == ZERO
            si = inv(p, s)
            assert (si is None) == (s == ZERO), (p, s)
            if si is not None:
                assert mul(p, s, si) == ONE, (p, s)
            assert power(p, s, 3) == mul(p, s, mul(p, s, s))
            if s != ZERO:
                assert power(p, s, p * p - 1) == ONE, (p, s)  # Lagrange in the multiplicative group
        if p <= 5:
            for s in elems:
                for t in elems:
                    assert mul(p, s, t) == mul(p, t, s) and add(p, s, t) == add(p, t, s)
                    for w in elems:
                        assert mul(p, s, add(p, t, w)) == add(p, mul(p, s, t), mul(p, s, w))
                        assert mul(p, mul(p, s, t), w) == mul(p, s, mul(p, t, w))
