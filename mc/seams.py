"""
Seams: every source of nondeterminism the library reads is replaced here, *before* ipv8 is
imported, so that ``from time import time`` style bindings inside ipv8 pick up our objects.

Import this module first (mc.cli does).  ``install()`` is idempotent and asserts ownership.
"""
from __future__ import annotations

import hashlib
import os
import random
import sys
import time
import timeit

REPO = os.environ.get("VERIF_REPO", "/repo")

REAL_TIME = time.time
REAL_MONOTONIC = time.monotonic
REAL_PERF = time.perf_counter
REAL_URANDOM = os.urandom


class VClock:
    """Virtual clock.  ``now`` is seconds since world creation; wall time is EPOCH + now."""

    EPOCH = 1_700_000_000.0

    def __init__(self) -> None:
        self.now = 0.0

    def reset(self) -> None:
        self.now = 0.0

    def advance(self, dt: float) -> None:
        assert dt >= 0, dt
        self.now += dt

    def set(self, t: float) -> None:
        assert t >= self.now - 1e-9, (t, self.now)
        self.now = max(self.now, t)


CLOCK = VClock()


def _vtime() -> float:
    return VClock.EPOCH + CLOCK.now


def _vmono() -> float:
    return CLOCK.now


_vtime.__name__ = "verif_time"
_vmono.__name__ = "verif_monotonic"


class ByteStream:
    """Deterministic replacement of os.urandom: SHA-256 in counter mode, re-seedable."""

    def __init__(self) -> None:
        self.seed(0)

    def seed(self, seed: object) -> None:
        self._key = hashlib.sha256(repr(seed).encode()).digest()
        self._ctr = 0
        self._buf = b""

    def read(self, n: int) -> bytes:
        while len(self._buf) < n:
            self._buf += hashlib.sha256(self._key + self._ctr.to_bytes(8, "big")).digest()
            self._ctr += 1
        out, self._buf = self._buf[:n], self._buf[n:]
        return out


URANDOM = ByteStream()


def _vurandom(n: int) -> bytes:
    return URANDOM.read(n)


_installed = False


def install() -> None:
    """Patch the process.  Must run before ``import ipv8``."""
    global _installed
    if _installed:
        return
    if any(m == "ipv8" or m.startswith("ipv8.") for m in sys.modules):
        print("mc.seams: ipv8 was imported before the seams were installed", file=sys.stderr)
        sys.exit(2)
    # Make sure stdlib modules that bind the real clock at import time are already loaded.
    import asyncio  # noqa: F401
    import multiprocessing  # noqa: F401
    import multiprocessing.pool  # noqa: F401
    import selectors  # noqa: F401
    import threading  # noqa: F401
    import concurrent.futures  # noqa: F401
    import logging  # noqa: F401
    import secrets  # noqa: F401

    time.time = _vtime
    # time.monotonic stays real: ipv8 never reads it and multiprocessing's poll(0) spins on a frozen one
    timeit.default_timer = _vmono
    os.urandom = _vurandom
    random._urandom = _vurandom  # SystemRandom (used by ``secrets``) reads this name
    if REPO in sys.path:
        sys.path.remove(REPO)
    sys.path.insert(0, REPO)
    _installed = True


def reseed(seed: object) -> None:
    """Start of every world/execution: same seed => same choices."""
    random.seed(repr(seed))
    URANDOM.seed(seed)
    CLOCK.reset()


def assert_ownership() -> None:
    """Prove that the code under test reads our clock and comes from REPO."""
    import ipv8
    root = os.path.realpath(os.path.dirname(ipv8.__file__))
    if root != os.path.realpath(os.path.join(REPO, "ipv8")):
        print(f"mc.seams: ipv8 imported from {root}, expected {REPO}/ipv8", file=sys.stderr)
        sys.exit(2)
    bad = []
    for name, mod in list(sys.modules.items()):
        if not (name == "ipv8" or name.startswith("ipv8.")) or mod is None:
            continue
        t = mod.__dict__.get("time")
        if t is not None and t is not time and t is not _vtime:
            bad.append(name)
        if mod.__dict__.get("default_timer") not in (None, _vmono):
            bad.append(name + ":default_timer")
        if mod.__dict__.get("urandom") not in (None, _vurandom):
            bad.append(name + ":urandom")
    if time.time is not _vtime or bad:
        print(f"mc.seams: clock not owned (modules with a foreign clock: {bad})", file=sys.stderr)
        sys.exit(2)
    before = time.time()
    CLOCK.advance(1.0)
    if abs((time.time() - before) - 1.0) > 1e-6:
        print("mc.seams: advancing the virtual clock is not visible through time.time()", file=sys.stderr)
        sys.exit(2)
    CLOCK.now -= 1.0
