"""
SimNet: a closed network of real ipv8 endpoints/overlays on a VirtualLoop.

Every datagram an endpoint sends goes into the world's in-flight list; the harness decides which
one is delivered (as an I/O event of the next loop iteration), dropped, duplicated or altered.
"""
from __future__ import annotations

from dataclasses import dataclass, field
from typing import Any, Callable

import ipv8.messaging.interfaces.endpoint as _ep_mod
import ipv8.overlay as _overlay_mod
from ipv8.messaging.interfaces.endpoint import Endpoint
from ipv8.messaging.interfaces.udp.endpoint import UDPv4Address
from ipv8.peer import Peer
from ipv8.peerdiscovery.network import Network

from . import fixtures, seams, vloop
from .vloop import CURRENT_NODE

# --- LAN discovery seam ----------------------------------------------------------------------------------------------
# Overlay.discover_lan_addresses iterates get_providers(); EndpointListener asks get_lan_addresses().


def _sim_lan_addresses() -> list[str]:
    node = CURRENT_NODE.get()
    if node is not None and getattr(node, "lan_ips", None):
        return list(node.lan_ips)
    return []


_overlay_mod.get_providers = lambda: []
_ep_mod.get_lan_addresses = _sim_lan_addresses


@dataclass
class Datagram:
    seq: int
    src: tuple            # address the receiver will see as source
    dst: tuple
    data: bytes
    sender: Any = None    # SimEndpoint that sent it
    note: str = ""


class SimEndpoint(Endpoint):
    """The abstract Endpoint API on top of a World."""

    def __init__(self, world: "World", address: tuple, name: str) -> None:
        super().__init__()
        self.world = world
        self.address = address
        self.name = name
        self._open = True
        self.sent_count = 0
        self.node: Any = None
        self.bytes_up = 0
        self.bytes_down = 0

    def assert_open(self) -> None:
        assert self._open

    def is_open(self) -> bool:
        return self._open

    def get_address(self):  # noqa: ANN201
        return self.address

    def send(self, socket_address, packet: bytes) -> None:  # noqa: ANN001
        if not self._open:
            return
        self.sent_count += 1
        self.world.on_send(self, socket_address, bytes(packet))

    async def open(self) -> bool:
        self._open = True
        return True

    def close(self) -> None:
        self._open = False

    def reset_byte_counters(self) -> None:
        pass


class Node:
    """One participant: endpoint + network + identity + overlays."""

    def __init__(self, world: "World", name: str, key_index: int, address: tuple, curve: str = "curve25519") -> None:
        self.world = world
        self.name = name
        self.address = address
        self.lan_ips: list[str] = []
        self.endpoint = SimEndpoint(world, address, name)
        self.endpoint.node = self
        self.network = Network()
        self.key_index = key_index
        self.my_peer = Peer(fixtures.private_key(key_index, curve), address)
        self.overlays: list = []

    def run(self, fn: Callable, *args, **kwargs):  # noqa: ANN002, ANN003, ANN201
        """Call into this node with CURRENT_NODE set (tasks/handles created inside inherit the tag)."""
        tok = CURRENT_NODE.set(self)
        try:
            return fn(*args, **kwargs)
        finally:
            CURRENT_NODE.reset(tok)

    def add_overlay(self, cls, settings=None, endpoint=None, **extra):  # noqa: ANN001, ANN003, ANN201
        def make():  # noqa: ANN202
            s = settings if settings is not None else cls.settings_class()
            s.my_peer = self.my_peer
            s.endpoint = endpoint if endpoint is not None else self.endpoint
            s.network = self.network
            for k, v in extra.items():
                setattr(s, k, v)
            o = cls(s)
            o.my_estimated_wan = self.address
            o.my_estimated_lan = self.address
            return o
        o = self.run(make)
        self.overlays.append(o)
        return o

    def __repr__(self) -> str:
        return f"Node({self.name})"


class World:
    def __init__(self, seed_key: object = 0) -> None:
        seams.reseed(seed_key)
        self.loop = vloop.new_loop()
        self.nodes: dict[str, Node] = {}
        self.endpoints: dict[tuple, SimEndpoint] = {}
        self.inflight: list[Datagram] = []
        self.wire_log: list[Datagram] = []
        self.dropped: list[Datagram] = []
        self.seq = 0
        self.send_hook: Callable[[Datagram], Datagram | None] | None = None
        self.idle_hook: Callable[[], bool] | None = None   # called when the network went quiet; True = more in flight
        self.undeliverable: list[Datagram] = []
        self.closed = False
        # batch: flush() hands all datagrams queued for the same node to it in ONE loop iteration (what endpoints do
        # that post received datagrams with call_soon, or read several per poll): tasks scheduled by the first
        # datagram's handler have not run yet when the next one is handled
        self.batch = False

    # -- construction -----------------------------------------------------------------------------
    def add_node(self, name: str, key_index: int, address: tuple | None = None, curve: str = "curve25519") -> Node:
        if address is None:
            n = len(self.nodes) + 1
            address = UDPv4Address(f"{n}.{n}.{n}.{n}", 1000 + n)
        node = Node(self, name, key_index, address, curve)
        self.nodes[name] = node
        self.endpoints[tuple(address)] = node.endpoint
        return node

    # -- network ----------------------------------------------------------------------------------
    def on_send(self, ep: SimEndpoint, dst, data: bytes) -> None:  # noqa: ANN001
        self.seq += 1
        dg = Datagram(self.seq, ep.address, tuple(dst), data, ep)
        if self.send_hook is not None:
            dg = self.send_hook(dg)
            if dg is None:
                return
        self.wire_log.append(dg)
        self.inflight.append(dg)

    def inject(self, src: tuple, dst: tuple, data: bytes, note: str = "injected") -> Datagram:
        self.seq += 1
        dg = Datagram(self.seq, src, tuple(dst), data, None, note)
        self.inflight.append(dg)
        return dg

    def deliver(self, idx: int = 0, settle: bool = True) -> Datagram:
        dg = self.inflight.pop(idx)
        self.deliver_datagram(dg, settle)
        return dg

    def deliver_datagram(self, dg: Datagram, settle: bool = True) -> None:
        target = self.endpoints.get(tuple(dg.dst))
        if target is None or not target.is_open():
            self.undeliverable.append(dg)
        else:
            tok = CURRENT_NODE.set(target.node)
            try:
                self.loop.io_event(self._receive, target, dg)
            finally:
                CURRENT_NODE.reset(tok)
        if settle:
            self.loop.settle()

    @staticmethod
    def _receive(target: SimEndpoint, dg: Datagram) -> None:
        target.bytes_down += len(dg.data)
        target.notify_listeners((dg.src, dg.data))

    def drop(self, idx: int = 0) -> Datagram:
        dg = self.inflight.pop(idx)
        self.dropped.append(dg)
        return dg

    def flush(self, max_steps: int = 100000) -> int:
        """Deliver in FIFO order without letting time pass until nothing is in flight or runnable."""
        n = 0
        self.loop.settle()
        while True:
            while self.inflight:
                if self.batch:
                    dst = tuple(self.inflight[0].dst)
                    group = [dg for dg in self.inflight if tuple(dg.dst) == dst]
                    self.inflight[:] = [dg for dg in self.inflight if tuple(dg.dst) != dst]
                    for dg in group:
                        self.deliver_datagram(dg, settle=False)
                        n += 1
                    self.loop.settle()
                else:
                    self.deliver(0)
                    n += 1
                if n > max_steps:
                    raise vloop.LoopStuck("network did not go quiet")
            if self.idle_hook is None or not self.idle_hook():
                break
        return n

    def run_for(self, dt: float, deliver: bool = True) -> None:
        """Let dt seconds pass, delivering everything FIFO as it is sent and firing timers in order."""
        deadline = self.loop.time() + dt
        guard = 0
        while True:
            if deliver:
                self.flush()
            else:
                self.loop.settle()
            nt = self.loop.next_timer()
            if nt is None or nt > deadline:
                break
            seams.CLOCK.set(nt)
            guard += 1
            if guard > 2_000_000:
                raise vloop.LoopStuck("timer storm")
        seams.CLOCK.set(deadline)
        if deliver:
            self.flush()
        else:
            self.loop.settle()

    def drive(self, aw, horizon: float = 600.0, deliver: bool = True):  # noqa: ANN001, ANN201
        """Await something while the network delivers FIFO and time passes as needed."""
        import asyncio
        fut = asyncio.ensure_future(aw, loop=self.loop)
        deadline = self.loop.time() + horizon
        while True:
            if deliver:
                self.flush()
            else:
                self.loop.settle()
            if fut.done():
                return fut.result()
            nt = self.loop.next_timer()
            if nt is None or nt > deadline:
                fut.cancel()
                self.loop.settle()
                raise vloop.LoopStuck("awaited future still pending (deadlock or horizon)")
            seams.CLOCK.set(nt)

    # -- life cycle -------------------------------------------------------------------------------
    def close(self) -> None:
        if not self.closed:
            self.closed = True
            self.loop.shutdown()

    def __enter__(self) -> "World":
        return self

    def __exit__(self, *a) -> None:  # noqa: ANN002
        self.close()


def introduce(world: World, overlays: list) -> None:
    """Full mesh introduction like TestBase.introduce_nodes: everybody walks to everybody, then flush."""
    for a in overlays:
        for b in overlays:
            if a is not b:
                a.walk_to(b.my_peer.address)
    world.flush()
