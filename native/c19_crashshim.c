/*
 * C19 crash shim (LD_PRELOAD).
 *
 * Counts every write-side system call that reaches a file below the directory named by
 * C19_SCRATCH (pwrite, pwrite64, write, pwritev, fsync, fdatasync, ftruncate, ftruncate64, unlink,
 * rename) and SIGKILLs the process at call number C19_KILL_AT:
 *
 *   C19_KILL_MODE=before   the K-th call is never performed
 *   C19_KILL_MODE=after    the K-th call is performed completely, the process dies before it returns
 *   C19_KILL_MODE=torn     pwrite only: the buffer is written up to the C19_TORN_INDEX-th (1-based) 4 KiB
 *                          page-cache boundary of the file that lies strictly inside the write, then the
 *                          process dies.  This is the short write the kernel produces when a fatal signal
 *                          arrives between two page-cache pages of one write(2) (generic_perform_write
 *                          checks fatal_signal_pending per page).  If there is no such boundary, or for
 *                          any other call, it behaves as "before".
 *
 * C19_KILL_AT=0 or unset: never kill (measuring run).  If C19_TRACE names a file, one line per counted
 * call is appended to it ("<n> <call> <path relative to C19_SCRATCH> <size> <offset>").
 *
 * Crash model: process kill only.  Everything handed to the kernel before the kill survives; nothing is
 * dropped or reordered afterwards.
 */
#define _GNU_SOURCE
#include <dlfcn.h>
#include <fcntl.h>
#include <signal.h>
#include <stdio.h>
#include <stdlib.h>
#include <string.h>
#include <sys/types.h>
#include <sys/uio.h>
#include <unistd.h>

static ssize_t (*real_write)(int, const void *, size_t);
static ssize_t (*real_pwrite)(int, const void *, size_t, off_t);
static ssize_t (*real_pwrite64)(int, const void *, size_t, off64_t);
static ssize_t (*real_pwritev)(int, const struct iovec *, int, off_t);
static int (*real_fsync)(int);
static int (*real_fdatasync)(int);
static int (*real_ftruncate)(int, off_t);
static int (*real_ftruncate64)(int, off64_t);
static int (*real_unlink)(const char *);
static int (*real_rename)(const char *, const char *);

static char scratch[4096];
static size_t scratch_len;
static long kill_at;
static int kill_mode; /* 0 before, 1 after, 2 torn */
static long torn_index = 1;
static long counter;
static int trace_fd = -1;
static int ready;

static void init(void)
{
    if (ready)
        return;
    ready = 1;
    real_write = dlsym(RTLD_NEXT, "write");
    real_pwrite = dlsym(RTLD_NEXT, "pwrite");
    real_pwrite64 = dlsym(RTLD_NEXT, "pwrite64");
    real_pwritev = dlsym(RTLD_NEXT, "pwritev");
    real_fsync = dlsym(RTLD_NEXT, "fsync");
    real_fdatasync = dlsym(RTLD_NEXT, "fdatasync");
    real_ftruncate = dlsym(RTLD_NEXT, "ftruncate");
    real_ftruncate64 = dlsym(RTLD_NEXT, "ftruncate64");
    real_unlink = dlsym(RTLD_NEXT, "unlink");
    real_rename = dlsym(RTLD_NEXT, "rename");
    const char *s = getenv("C19_SCRATCH");
    if (s && *s && strlen(s) < sizeof(scratch) - 2) {
        strcpy(scratch, s);
        scratch_len = strlen(scratch);
        if (scratch[scratch_len - 1] != '/') {
            scratch[scratch_len++] = '/';
            scratch[scratch_len] = 0;
        }
    }
    const char *k = getenv("C19_KILL_AT");
    kill_at = k ? atol(k) : 0;
    const char *m = getenv("C19_KILL_MODE");
    kill_mode = (m && !strcmp(m, "after")) ? 1 : (m && !strcmp(m, "torn")) ? 2 : 0;
    const char *ti = getenv("C19_TORN_INDEX");
    if (ti && atol(ti) > 0)
        torn_index = atol(ti);
    const char *t = getenv("C19_TRACE");
    if (t && *t)
        trace_fd = open(t, O_WRONLY | O_CREAT | O_APPEND | O_CLOEXEC, 0644);
}

__attribute__((constructor)) static void ctor(void) { init(); }

static void die(void)
{
    kill(getpid(), SIGKILL);
    for (;;)
        pause();
}

/* path of fd relative to the scratch directory, or NULL if the fd is not below it */
static const char *tracked_fd(int fd, char *buf, size_t n)
{
    char link[64];
    if (!scratch_len || fd < 0)
        return NULL;
    snprintf(link, sizeof link, "/proc/self/fd/%d", fd);
    ssize_t r = readlink(link, buf, n - 1);
    if (r <= 0)
        return NULL;
    buf[r] = 0;
    if (strncmp(buf, scratch, scratch_len) != 0)
        return NULL;
    return buf + scratch_len;
}

static const char *tracked_path(const char *path)
{
    if (!scratch_len || !path || strncmp(path, scratch, scratch_len) != 0)
        return NULL;
    return path + scratch_len;
}

/* returns 1 if the caller has to die after performing the call, 2 if it has to tear the write */
static int tick(const char *call, const char *rel, long size, long off)
{
    long n = ++counter;
    if (trace_fd >= 0) {
        char line[4400];
        int len = snprintf(line, sizeof line, "%ld %s %s %ld %ld\n", n, call, rel, size, off);
        if (len > 0)
            real_write(trace_fd, line, (size_t)len);
    }
    if (kill_at && n == kill_at) {
        if (kill_mode == 0)
            die();
        return kill_mode;
    }
    return 0;
}

#define PATHBUF char pb[4096]

/* number of bytes to write before dying in torn mode (0: nothing, die before) */
static size_t torn_len(size_t n, long long o)
{
    long long first = (o / 4096 + 1) * 4096;
    long long p = first + (torn_index - 1) * 4096;
    if (o < 0 || p >= o + (long long)n)
        return 0;
    return (size_t)(p - o);
}

ssize_t write(int fd, const void *b, size_t n)
{
    init();
    PATHBUF;
    const char *rel = tracked_fd(fd, pb, sizeof pb);
    if (!rel)
        return real_write(fd, b, n);
    int k = tick("write", rel, (long)n, -1);
    if (k == 2)
        die();
    ssize_t r = real_write(fd, b, n);
    if (k)
        die();
    return r;
}

ssize_t pwrite(int fd, const void *b, size_t n, off_t o)
{
    init();
    PATHBUF;
    const char *rel = tracked_fd(fd, pb, sizeof pb);
    if (!rel)
        return real_pwrite(fd, b, n, o);
    int k = tick("pwrite", rel, (long)n, (long)o);
    if (k == 2) {
        size_t t = torn_len(n, (long long)o);
        if (t)
            real_pwrite(fd, b, t, o);
        die();
    }
    ssize_t r = real_pwrite(fd, b, n, o);
    if (k)
        die();
    return r;
}

ssize_t pwrite64(int fd, const void *b, size_t n, off64_t o)
{
    init();
    PATHBUF;
    const char *rel = tracked_fd(fd, pb, sizeof pb);
    if (!rel)
        return real_pwrite64(fd, b, n, o);
    int k = tick("pwrite", rel, (long)n, (long)o);
    if (k == 2) {
        size_t t = torn_len(n, (long long)o);
        if (t)
            real_pwrite64(fd, b, t, o);
        die();
    }
    ssize_t r = real_pwrite64(fd, b, n, o);
    if (k)
        die();
    return r;
}

ssize_t pwritev(int fd, const struct iovec *iov, int cnt, off_t o)
{
    init();
    PATHBUF;
    const char *rel = tracked_fd(fd, pb, sizeof pb);
    if (!rel)
        return real_pwritev(fd, iov, cnt, o);
    int k = tick("pwritev", rel, (long)cnt, (long)o);
    if (k == 2)
        die();
    ssize_t r = real_pwritev(fd, iov, cnt, o);
    if (k)
        die();
    return r;
}

int fsync(int fd)
{
    init();
    PATHBUF;
    const char *rel = tracked_fd(fd, pb, sizeof pb);
    if (!rel)
        return real_fsync(fd);
    int k = tick("fsync", rel, 0, -1);
    if (k == 2)
        die();
    int r = real_fsync(fd);
    if (k)
        die();
    return r;
}

int fdatasync(int fd)
{
    init();
    PATHBUF;
    const char *rel = tracked_fd(fd, pb, sizeof pb);
    if (!rel)
        return real_fdatasync(fd);
    int k = tick("fdatasync", rel, 0, -1);
    if (k == 2)
        die();
    int r = real_fdatasync(fd);
    if (k)
        die();
    return r;
}

int ftruncate(int fd, off_t len)
{
    init();
    PATHBUF;
    const char *rel = tracked_fd(fd, pb, sizeof pb);
    if (!rel)
        return real_ftruncate(fd, len);
    int k = tick("ftruncate", rel, (long)len, -1);
    if (k == 2)
        die();
    int r = real_ftruncate(fd, len);
    if (k)
        die();
    return r;
}

int ftruncate64(int fd, off64_t len)
{
    init();
    PATHBUF;
    const char *rel = tracked_fd(fd, pb, sizeof pb);
    if (!rel)
        return real_ftruncate64(fd, len);
    int k = tick("ftruncate", rel, (long)len, -1);
    if (k == 2)
        die();
    int r = real_ftruncate64(fd, len);
    if (k)
        die();
    return r;
}

int unlink(const char *path)
{
    init();
    const char *rel = tracked_path(path);
    if (!rel)
        return real_unlink(path);
    int k = tick("unlink", rel, 0, -1);
    if (k == 2)
        die();
    int r = real_unlink(path);
    if (k)
        die();
    return r;
}

int rename(const char *from, const char *to)
{
    init();
    const char *rel = tracked_path(from);
    if (!rel)
        rel = tracked_path(to);
    if (!rel)
        return real_rename(from, to);
    int k = tick("rename", rel, 0, -1);
    if (k == 2)
        die();
    int r = real_rename(from, to);
    if (k)
        die();
    return r;
}
